#!/usr/bin/env bash
# usage: confirm_mutant.sh <seeded dir>   (contains patch.diff and a demo file verif_demo_*.rs)
# Confirms in a scratch worktree: patch applies+compiles, demo fails with / passes without, full suite still passes.
set -u
S=$(readlink -f "$1")
WT=${CONFIRM_WT:-/tmp/wt/confirm}
export CARGO_PROFILE_DEV_DEBUG=0 CARGO_PROFILE_TEST_DEBUG=0 CARGO_NET_OFFLINE=true
H=$(git -C /repo rev-parse HEAD)
if [ ! -d $WT ]; then git -C /repo worktree add -q --detach $WT $H; fi
git -C $WT checkout -q -- . ; git -C $WT clean -qfd tests >/dev/null 2>&1
git -C $WT checkout -q --detach $H
DEMO=$(ls $S/verif_demo_*.rs | head -1); DN=$(basename $DEMO .rs)
cp $DEMO $WT/tests/
FEAT=""; [ -f $S/features.txt ] && FEAT="--features $(cat $S/features.txt)"
cd $WT
if ! git apply --check $S/patch.diff; then echo '{"applies": false}' > $S/confirm.json; exit 1; fi
git apply $S/patch.diff
cargo test --offline $FEAT --test $DN > $S/demo_with.log 2>&1; DW=$?
/verif/tools/run_suite.sh $WT > $S/suite.log 2>&1; SU=$?
git apply -R $S/patch.diff
cargo test --offline $FEAT --test $DN > $S/demo_without.log 2>&1; DO=$?
rm -f $WT/tests/$DN.rs
tail -3 $S/suite.log
python3 - <<P
import json
json.dump({"applies": True, "repo_head": "$H", "demo_with_patch_exit": $DW, "demo_without_patch_exit": $DO, "suite_stable_all_pass": $SU == 0,
 "suite_summary": open("$S/suite.log").read().strip().splitlines()[0] if open("$S/suite.log").read().strip() else ""}, open("$S/confirm.json","w"), indent=1)
P
cat $S/confirm.json
