#!/usr/bin/env bash
# usage: run_all_seeds.sh "<seeds>" [ids...]   - runs quick checks for several seeds, prints one line per run
cd /verif
SEEDS=${1:-"0 1 2 3 4"}; shift
IDS=${@:-$(python3 -c "import json;print(' '.join(c['property_id'] for c in json.load(open('MANIFEST.json'))['checks']))")}
./check --build || exit 2
for id in $IDS; do for s in $SEEDS; do
  out=$(VERIF_SEED=$s timeout 1500 harness/target/debug/vcheck run $id --tier quick 2>&1); rc=$?
  echo "$id seed=$s rc=$rc $(echo "$out" | grep -E "evaluations=" | sed 's/.*evaluations/evaluations/') $(echo "$out" | grep -E "signature:" | head -2 | tr '\n' ' ')"
done; done
