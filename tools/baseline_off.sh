#!/usr/bin/env bash
# Runs the repository's pinned baseline with the verif-hooks feature OFF and
# compares with /root/.vp/BASELINE.json (stable_pass must all pass).
set -u
export CARGO_NET_OFFLINE=true
cd /repo
cargo nextest run --workspace --no-fail-fast --tool-config-file pb:/w/lib/nextest.toml --profile pb --test-threads 8 --offline >/tmp/verif_baseline.log 2>&1
J=/repo/target/nextest/pb/junit.xml
python3 - "$J" <<'P'
import json,sys,xml.etree.ElementTree as ET
b=json.load(open('/root/.vp/BASELINE.json'))
root=ET.parse(sys.argv[1]).getroot()
passed=set();failed=set()
for tc in root.iter('testcase'):
    tid=(tc.get('classname') or '')+'::'+(tc.get('name') or '')
    if tc.find('failure') is not None or tc.find('error') is not None: failed.add(tid)
    elif tc.find('skipped') is not None: pass
    else: passed.add(tid)
passed-=failed
missing=[t for t in b['stable_pass'] if t not in passed]
print(f"passed={len(passed)} failed={len(failed)} stable_pass={len(b['stable_pass'])} stable_missing={len(missing)}")
for m in missing: print("MISSING", m)
sys.exit(1 if missing else 0)
P
