#!/usr/bin/env bash
# Runs the repository's pinned baseline with the verif-hooks feature OFF (the default feature set)
# and compares with /root/.vp/BASELINE.json: every stable_pass test must pass. Stable tests that
# fail in the parallel run are retried alone (several are timing-sensitive under machine load).
exec "$(dirname "$(readlink -f "$0")")/run_suite.sh" /repo
