#!/usr/bin/env python3
"""Writes /verif/MANIFEST.json from the table below (kept in one place so the
manifest stays valid while checks are added)."""
import json, os

HOOK_COMMITS = []  # filled from git below

CHECKS = {
    "C04": ("exploration", "model-based stateful PBT over delivery/timeout/cancel scripts under a manual hub and virtual time; real-clock sweep sub-check",
            "One real node + stub peers; request frames are parked, then a generated script delivers genuine / unknown-id / right-id-wrong-peer / unconnected-sender / request-typed / duplicate / late replies, advances virtual time across the timeout, aborts callers and makes peers unreachable, for DHT requests and /rr/ application requests. Reference model: a request completes with the first reply carrying its id from its destination while pending, else timeout/send error, exactly once; pending tables empty afterwards; ≤256 /rr/ requests pending and the 257th refused; cancelled DHT callers swept after 2× the timeout (real clock). Third table: DhtCoreEngine::retrieve over a harness NetworkSender with scripts of retrieve / reply (value, none, error, wrong kind, duplicate, late) / unknown id / timeout / cancelled caller / failing sends - outcome is the first value delivered to one of its own queries while pending, each retrieve resolves once, table empty at the end, at most 10 000 pending and the excess refused before it is sent. Sweep sub-check: genuine replies meet cancelled DHT callers in both orders. The /rr/ cap is also exercised under 8 real worker threads with large payloads (cap_threads).",
            "Single-threaded runtime: thread interleavings inside a critical section are not explored.", "5/C04"),
    "C05": ("exploration", "structure-aware PBT/fuzzing of inbound byte paths with no-panic, allocation, cap, window and source-attribution oracles",
            "Random bytes (sizes clustered at 0/1/64Ki±1/128Ki), structure-aware mutations of every valid message kind (bit flips, truncation, splices, maximal varints) and valid messages with extreme fields through handle_dht_message, the real receive dispatcher (frame parser, /rr/ branch, DHT handler), DhtCoreEngine::handle_request, DhtRecord (de)serialise and the envelope parser: no panic, heap growth ≤ 4 MiB + 16×len (oversized DHT messages refused before decoding with < 64 KiB allocated), find-node ≤ 20 / find-value ≤ 8 nodes, values > 512 bytes never stored, records ≤ 512 bytes, frames surfaced only inside the timestamp window, surfaced source = connection id whatever the payload claims. Hostile replies to the node's own get / lookup / put / ping from a stub on the right connection with the right id (oversized values, node lists of up to 3000 entries with empty / multi-byte / long ids and garbage addresses, absurd counters): no panic, completion, heap bound, at most k nodes, nothing over 512 bytes retained. Every sub-check runs with logging on (a tracing subscriber that formats every field), as nodes do.",
            "Thread-local counting allocator; 5 s dead band on wall-clock window edges.", "5/C05"),
    "C20": ("exploration", "PBT over seeded schedules (start offsets, per-frame delays, silence/stop instants) under an owned virtual clock; bounded-completion oracle; leftover-reference check for background tasks; sampled real-thread variant",
            "2..12 real nodes, 2..12 (40) concurrent lookups/puts/gets/pings/inbound requests at seeded offsets, per-frame delays up to 1.5×timeout, peers turned silent/dead mid-operation, stop() at a seeded instant: every operation resolves within (2·20+2)·T, stop() returns within (peers+2)·T, after stop returned and its operations resolved no frame or send attempt leaves the node for 10·T and an injected request is not answered, no task panics. Operations include dials of known and never-seen peers and inbound connections, a fifth of all operations are dropped by their caller mid-flight, stop() may be issued at the very instant an operation starts, and after stop() only the caller's reference to the manager may remain.",
            "Paused tokio clock on one thread (seeded yields and delays give the interleavings): liveness is bounded completion in virtual time; OS-thread interleavings are only sampled by the real-thread sub-check, where only a hang (> 60 s beyond the bound) is decided.", "5/C20"),
    "C01": ("exploration", "PBT over topologies × fault patterns on an in-memory network of real nodes under virtual time; trace invariants + ground-truth closest set",
            "N real DhtNetworkManager/TransportHandle instances exchange the real framed bytes through a hub (paused tokio clock); generated topology, ids, key, K, silent/dead/slow peers and lying stub peers (unknown, duplicate, requester, self ids, forged distances). From the returned list and the RPC trace: completes within a virtual-time bound, ≤K distinct nodes in ascending true XOR distance, each the local node or a peer whose reply was delivered in time, no learned peer closer than the farthest returned one left uncontacted, full mesh ⇒ exactly the K globally closest, never a request to itself, no peer queried twice, ≤1000 frames. Liars also name the requester under each of its aliases (transport id, application id, hex of its DHT key).",
            "QUIC (ant-quic) is replaced by the hub below send_message / above the receive dispatcher; liars name ≤12 fabricated ids so the documented budget can satisfy completeness.", "5/C01"),
    "C03": ("exploration", "stateful PBT over put/get/store histories on the in-memory network with ground truth read from every node's store after every step",
            "Histories of put / get / store_local / raw PUT frames from stub peers / fault changes over 4 keys and values 0..=600 bytes (511/512/513 over-weighted) in generated topologies of 1..12 (30) real nodes: put Ok ⇒ local store and every successful replica hold the bytes, PUT frames go to distinct remote nodes and, in a quiescent network, exactly to the remote members of the closest-node lookup; get returns only bytes put under that key; not-found only after every learned peer was contacted or the budget ran out; values > 512 bytes refused on every path and in no store. put_with_targets (connected, unconnected, fabricated and stub targets) is judged like put; faults also strike in the middle of an operation (after the node has handled n more frames).",
            "Same hub and virtual clock as C01.", "5/C03"),
    "C06": ("fault_enumeration", "stateful PBT × crash-point enumeration: every instrumented step (+ byte truncations of the record in flight) reopened and compared with the prefix-of-history model",
            "Generated histories of upsert/delete/batch/checkpoint/clean-reopen/crash-reopen (nested crash-recover cycles) under 4 flush policies with rotation forced every 4..16 entries (natural 1000-entry rotation in thorough); a crash-point callback copies the state directory at each step of record write, rotation and checkpoint; every image is reopened and must equal S_j for acked ≤ j ≤ issued (flush-always) resp. 0 ≤ j ≤ issued, a batch counting as one operation; clean restart reproduces the full state; transaction ids keep increasing across restarts.",
            "Crash = process death (page cache survives); crash points are the instrumented ones plus truncations of the record being written.", "5/C06"),
    "C07": ("fault_enumeration", "PBT over corruption scripts on generated state directories vs an independent reference replay; genuineness, damage reporting, memory bound",
            "A cleanly closed directory (rotated logs, snapshots) plus a second store for transplants is damaged by 1..3 generated corruptions (bit flips, overwrite, truncate, append, duplicate/move/transplant a record, length-prefix rewrites, key/value re-split keeping the tag, file deletion, key-file damage); the reopened state must equal the reference replay of the damaged files, every value must be one genuinely written for its key, damage that breaks a record or snapshot must show in the statistics, heap growth ≤ 64× file size + 1 MiB, no panic. Snapshot headers are also damaged field-wise (decoded, one field rewritten to an extreme value, re-encoded with a matching length prefix). A single allocation request of 8 GiB or more is served from address space only and judged by the memory oracle; one that would abort the process ends the run as a violation for the case in flight. After the first recovery the directory is reopened once more and must yield the same state.",
            "Reference replay counts a framed record iff it is field-for-field identical to one this store wrote; complete-record duplication/reordering and boundary truncation need not be reported.", "5/C07"),
    "C08": ("exploration", "PBT round-trip + tamper-rejection oracle over identity kinds × call sites, real ML-DSA (debug assertions off)",
            "Identity kinds (generated, imported, from_seed, secure, derived path) × messages × tampers (any bit of message/signature/key, extension/truncation, another identity) × every signature-checking call site (ml_dsa_*, NodeIdentity, IPv4/IPv6NodeID per field, SignatureVerifier signature and file incl. unknown/not-yet-valid/expired pinned keys and wrong checksum, Single/Delegated/Threshold/Composite WriteAuth); genuine ⇒ accepted, tampered ⇒ rejected; every bit of one message exhaustively. Address-bound identities also over IPv4-mapped / IPv4-compatible / global / ULA addresses with one flipped address bit, the sibling embedding of the same 32 bits, and the same fields re-typed between the IPv4 and the IPv6 identity.",
            "Sampled bit flips do not argue unforgeability; keys are generated per run (outcome is key-independent). ThresholdWriteAuth placeholder is a recorded known finding.", "5/C08"),
    "C09": ("exploration", "stateful PBT: by-construction genuineness oracle + differential cached-vs-direct verdicts over presentation histories",
            "Histories of genuine, field-altered, byte-altered, foreign-signed and foreign-id records over 4 key pairs presented to one SignatureCache (capacity 1..8 or 100): direct verification accepts exactly the genuine ones (incl. user id bound to the embedded key) and the cache returns the same verdict every time; constructor bounds on name length, endpoint count and lifetime. Endpoint lists of up to 5 entries are also reordered, shortened, duplicated and altered in every sub-field.",
            "Genuineness is known by construction (which fields were changed after signing, which key signed).", "5/C09"),
    "C13": ("exploration", "model-based stateful PBT: reference counters per subnet/ASN level vs enforcer, routing-table path and bootstrap path",
            "(a) analyse/add/can_accept/remove/set_network_size histories over nested IPv4/IPv6 prefix pools with ASN/hosting/VPN attributes vs reference counters (admit iff every level is below its possibly-halved cap; stats equal the model after every step); (b) DhtCoreEngine add/evict/failure with addresses in socket, bare-ip and library Display form: counters equal the admitted nodes after every step (slots returned, no partial admission); (c) BootstrapManager::add_peer over IPv4/IPv6. The bootstrap path also runs with a binding join rate limiter: a join it refuses must consume no diversity slot.",
            "Only admitted nodes are removed; core-engine and bootstrap paths have no GeoIP source.", "5/C13"),
    "C18": ("exploration", "model-based stateful PBT + exhaustive single-byte corruption sweep + crash-image enumeration of the file update",
            "store/retrieve(current|previous|other password)/change-password/clear-cache/reopen histories vs a reference model; every byte offset × 3 masks of a golden store file (thorough; quick every 4th offset) must fail or return the original seed; store and password change interrupted at each instrumented step (+ truncations of the temporary file) must reopen as exactly the old or the new contents.",
            "SecurityLevel::Fast; crash points are the instrumented steps of encrypt_and_store.", "5/C18"),
    "C19": ("exploration", "exhaustive boundary grid + seeded sampling with round-trip oracles; cross-component differential (routing-table gate; dial of an address carried through a DHT reply on the in-memory network); malformed-input robustness",
            "7776-point IPv4 boundary grid exhaustively, seeded samples of the 2^48 space, IPv6 classes, separator/case variants: published word form decodes to the same address, own Display rendering parses back, serde JSON/postcard and ContactEntry round trips, 6-byte prefix round trip; routing-table gate treats the library rendering like the socket form; malformed strings never panic or yield a different address.",
            "An address for which no word form is published makes the four-word clauses vacuous (counted).", "5/C19"),
    "C02": ("exploration", "model-based stateful PBT: routing table vs reference set + sort",
            "Histories of join/add/failure/evict over ids drawn by bucket (incl. the local id and repeats) on a real DhtCoreEngine; the table must list each peer once and never the local node; find_nodes / FindNode / FindValue answers must equal the first min(n,|M|) entries of the reference set sorted by XOR distance, with the 20 / 8 protocol caps. A second sub-check sends FIND_NODE / FIND_VALUE / GET frames to a real manager with 1..14 connected peers on the in-memory network: ≤8 names, one identifier per peer, ascending, equal to the top-8 of everything it knows.",
            "Membership after an add is read back from the table and constrained (nothing lost/foreign, acknowledged ids present) rather than re-modelled.", "5/C02"),
    "C10": ("exploration", "stateful PBT over report histories: distribution invariants + differential (two engines) + metamorphic one-extra-report relations",
            "Generated histories of local-trust statements, all nine statistics updates (amounts to 2^40), anchor changes and node removals; after compute: finite scores in [0,1], sum 1 (or all 0), a second engine fed the same history agrees within 1e-6, get_trust equals the computed score and is 0 for unknown ids; one more success never lowers / one more failure never raises the target's score, corrupted-data and protocol-violation cost at least a failure.",
            "Runs on tokio's paused clock; monotonicity is asserted for statistics reports, not for pairwise local-trust statements.", "5/C10"),
    "C11": ("exploration", "PBT over attack graphs with bound oracle on the closed set's aggregate trust and anchor floor",
            "Honest graphs (density 0..h², including honest nodes with no outgoing statements) × 1..50 anchors × unvouched sets of 1..1000 identities in clique/star/chain/self-loop/random patterns, equal statistics: aggregate trust of the closed set ≤ (1/7)·s/(h+s) and < 0.1% for ≤100 nodes; every anchor ≥ 0.4/a. A quarter of the cases run with no statistics for anybody (identities exist only through statements, anchors only by configuration).",
            "No honest→Sybil edge exists by construction; equal statistics for all identities.", "5/C11"),
    "C16": ("exploration", "model-based stateful PBT (eviction manager vs reference model) + ranking/validity predicates over generated candidate lists",
            "(a) success/failure/trust/mark/forget histories vs a reference model of candidacy and reason precedence after every step; (b) add/evict/fail/lookup histories on a LogOnly core engine: removed peers never reappear; (c) selector: output ⊆ candidates, distinct, ≤ count, storage floor 0.2, no farther peer ahead of a closer one of equal trust (full 256-bit distance), uniform trust ⇒ exactly the closest in order; (d) trust selection off ⇒ StoreReceipt.stored_at is the 8 closest in order. Candidate ids differ in the top bytes, the middle bytes (beyond an f64 mantissa of the top half) with the low half ordered independently or oppositely, the low bytes, any single byte, or not at all.",
            "Ranking claims asserted for trust/weights inside [0,1]; candidate ids pairwise distinct.", "5/C16"),
    # id: (category, technique, level text, note, design_ref)
    "C12": ("exploration", "model-based stateful PBT (proptest histories vs reference counter model) + barrier-released thread rounds",
            "Generated histories of validate/batch/sync-reload/cleanup over 1..4 peers are compared step by step with a reference model (last accepted number per peer, wall-clock window with a dead band); a second sub-check releases 2..16 threads on the same (peer, seq) and requires exactly one acceptance. Exploration is the right level: the state space is unbounded and the oracle is exact and cheap. The concurrent sub-check runs on OS threads lined up by a spinning start gate against a known peer and also checks the final counter. An aged-history sub-check accepts numbers with timestamps just inside the one-hour window, lets them age out in real time, runs cleanup_old_sequences and re-submits them.",
            "Trusts the OS scheduler to produce contention in the thread sub-check (sampled, not enumerated); timestamps within 5 s of a window edge are not judged.", "5/C12"),
    "C14": ("exploration", "PBT over arrival sequences with interval-arithmetic oracle on measured time",
            "Arrival sequences (shared/distinct prefixes, sleeps, 1..8 threads) against Engine, JoinRateLimiter and validation::RateLimiter; admitted counts are bounded by burst+refill and by max per window computed from measured elapsed time, plus exactness for hour-long windows and a fresh-key lower bound. A paced single-source sub-check (burst, one request per token interval up to max-1, idle refill, housekeeping via cleanup() or a short cleanup interval, one more burst) bounds the admitted requests of the source by max per window counted from before its first request.",
            "Upper bounds over-approximate elapsed time, so they can only be loose, never flaky; thread interleavings are sampled.", "5/C14"),
    "C15": ("exploration", "exhaustive small-scope enumeration + PBT with necessary-condition and metamorphic oracles",
            "Every witness multiset up to a small size over the property's grid is enumerated (exhaustive for that sub-space) and larger sets are sampled; acceptance is checked against necessary conditions recomputed from the inputs, the normal-mode iff, monotonicity under confirm→deny, the unanimous-accept clause and the 3f+1 family built by construction.",
            "The collusion heuristic is only asserted in its clear-cut instance (identical latencies).", "5/C15"),
    "C17": ("exploration", "PBT with validity-predicate oracle over placement output; seeded sampler statistics",
            "Generated candidate sets (clustered geography, shared ASNs/regions, missing metadata), k 0..=20 and degenerate weights through both entry points; any Ok decision must be exactly k distinct candidates within the region/ASN/50 km limits (haversine recomputed), never a panic; sampler checked for draws without replacement and preference for heavy items.",
            "fastrand is seeded per case; the strategy's mock trust inputs are the repository's own.", "5/C17"),
}

NOT_YET = {
}

def main():
    root = "/verif"
    try:
        import subprocess
        out = subprocess.run(["git", "-C", "/repo", "log", "--format=%H %s"], capture_output=True, text=True).stdout
        hooks = [l.split()[0] for l in out.splitlines() if l.split(" ", 1)[1].startswith("verif-hooks")]
    except Exception:
        hooks = []
    props = [json.loads(l) for l in open(f"{root}/properties.jsonl")]
    checks = []
    na = []
    for p in props:
        i = p["id"]
        if i in CHECKS:
            cat, tech, text, note, ref = CHECKS[i]
            checks.append({
                "property_id": i,
                "quick_cmd": f"./check {i} quick",
                "thorough_cmd": f"./check {i} thorough",
                "evidence_file": f"/verif/evidence/{i}.json",
                "replay_cmd_template": "./check --replay {path}",
                "engine": "vcheck",
                "level_claimed": {"category": cat, "text": text, "design_ref": f"DESIGN.md §{ref}"},
                "level_note": note,
                "technique": tech,
            })
        else:
            na.append({"property_id": i, "reason": NOT_YET.get(i, "check not built yet in this revision of /verif (planned in DESIGN.md §5); not claimed until its check exists")})
    m = {
        "version": 1,
        "setup_cmd": "./check --build",
        "hooks": {
            "guard": "cargo feature verif-hooks (saorsa-core)",
            "enable": "harness/Cargo.toml depends on saorsa-core = { path = \"/repo\", features = [\"verif-hooks\"] }; every check runs `cargo build --offline` in /verif/harness first",
            "baseline_off_cmd": "/verif/tools/baseline_off.sh",
            "source_commits": hooks,
            "add_only": True,
        },
        "engines": [
            {"name": "vcheck", "path": "/verif/harness", "serves_properties": sorted(CHECKS.keys()),
             "kind_free_text": "Rust binary: proptest TestRunner (seeded, sharded, shrinking to JSON replay files), exhaustive small-scope enumerators, crash-image enumeration, in-memory network of real saorsa-core nodes under tokio's paused clock"},
        ],
        "checks": checks,
        "not_applicable": na,
        "notes": "All checks: exit 0 held / 1 VIOLATION line / 2 inconclusive. VERIF_SEED selects the proptest seed. known_findings.json lists recorded genuine defects.",
    }
    json.dump(m, open(f"{root}/MANIFEST.json", "w"), indent=1)
    print("checks:", len(checks), "not_applicable:", len(na))

if __name__ == "__main__":
    main()
