#!/usr/bin/env bash
# usage: mutant_sweep.sh [seeded dir names...]      (default: all of /verif/seeded/*)
# Applies each seeded change to /repo (never committed), runs the quick check of its property, prints which
# signatures fired, and restores /repo straight afterwards.  /repo must be clean before it starts.
cd /verif
if [ -n "$(git -C /repo status --porcelain)" ]; then echo "refusing: /repo working tree is not clean"; exit 2; fi
NAMES=${@:-$(ls seeded)}
for n in $NAMES; do
  d=seeded/$n; id=${n%%-*}
  [ -f $d/patch.diff ] || continue
  if ! git -C /repo apply --check $PWD/$d/patch.diff 2>/dev/null; then echo "$n: patch does not apply to the current tree"; continue; fi
  git -C /repo apply $PWD/$d/patch.diff
  cp evidence/$id.json /tmp/evidence-$id.keep 2>/dev/null   # evidence must describe the unchanged tree only
  out=$(VERIF_SEED=${VERIF_SEED:-0} ./check $id quick 2>&1); rc=$?
  git -C /repo checkout -q -- .
  [ -f /tmp/evidence-$id.keep ] && mv /tmp/evidence-$id.keep evidence/$id.json
  rm -rf replays/$id/found
  sigs=$(echo "$out" | grep -E "^  signature:" | sed 's/  signature: //' | sort -u | tr '\n' ' ')
  echo "$n: rc=$rc $(echo "$out" | grep -E "^$id quick" | sed 's/.*evaluations/evaluations/') ${sigs}"
done
git -C /repo status --porcelain | head -3
