#!/usr/bin/env bash
# usage: fuzz_stage.sh <ID> <seed> [runs-per-worker]
# Coverage-guided stage of the thorough tier: libFuzzer drives the same case types, interpreter and oracle as the
# proptest stage (harness/src/fuzz.rs); the fuzzer's bytes are decoded into cases by arbitrary::Unstructured decoders.
#   exit 0  nothing found (or the stage could not be built/run: a note is added to the evidence, the proptest verdict stands)
#   exit 1  VIOLATION printed (replay file written by the target)
#   exit 2  inconclusive (a worker hit libFuzzer's timeout / rss limit, or died without a verdict)
set -u
ID=$1; SEED=${2:-0}; RUNS=${3:-${VERIF_FUZZ_RUNS:-}}
V=/verif
case $ID in
  C02) TARGETS="c02_engine";             DEF_RUNS=300000 ;;
  C04) TARGETS="c04_core";               DEF_RUNS=40000 ;;
  C05) TARGETS="c05_inbound c05_core c05_reply";   DEF_RUNS=200000 ;;
  C06) TARGETS="c06_history";            DEF_RUNS=4000 ;;
  C07) TARGETS="c07_recover";            DEF_RUNS=60000 ;;
  C19) TARGETS="c19_parse";              DEF_RUNS=2000000 ;;
  *) exit 0 ;;
esac
RUNS=${RUNS:-$DEF_RUNS}
WORKERS=${VERIF_FUZZ_WORKERS:-8}
export CARGO_NET_OFFLINE=true
note() { python3 $V/tools/fuzz_evidence.py note "$ID" "$1"; echo "note: $1"; }

W=$(mktemp -d $V/work/fuzz.XXXXXX) || exit 0
trap 'rm -rf "$W"' EXIT
for t in $TARGETS; do
  if ! ( cd $V/harness && timeout 7200 cargo +nightly fuzz build -O -s none --fuzz-dir $V/fuzz $t ) > $W/build.log 2>&1; then
    tail -5 $W/build.log
    note "libFuzzer stage skipped: target $t did not build (cargo +nightly fuzz build); the proptest stage stands alone"
    exit 0
  fi
done
rc=0
for t in $TARGETS; do
  BIN=$V/fuzz/target/x86_64-unknown-linux-gnu/release/$t
  pids=""
  for w in $(seq 1 $WORKERS); do
    d=$W/$t.$w; mkdir -p $d/corpus
    # starting corpus: a few pseudo-random byte strings of different lengths, so libFuzzer does not have to ramp the
    # length up from zero (the decoders turn any bytes into a well-formed case; there is no magic value to seed)
    python3 - "$d/corpus" $((SEED * 64 + w)) <<'P'
import sys, random
r = random.Random(int(sys.argv[2]))
for i, n in enumerate([32, 256, 2048, 8192]):
    open(f"{sys.argv[1]}/seed{i}", "wb").write(bytes(r.getrandbits(8) for _ in range(n)))
P
    ( cd $d && VERIF_FUZZ_STATS=$d/stats.json timeout 7200 $BIN -runs=$RUNS -seed=$((SEED * 64 + w)) -len_control=0 -max_len=16384 \
        -timeout=300 -rss_limit_mb=6144 -print_final_stats=1 -artifact_prefix=$d/ corpus > $d/log 2>&1; echo $? > $d/rc ) &
    pids="$pids $!"
  done
  wait $pids
  for w in $(seq 1 $WORKERS); do
    d=$W/$t.$w; r=$(cat $d/rc 2>/dev/null || echo 99)
    if grep -q "^VIOLATION property=" $d/log; then
      grep -A2 "^VIOLATION property=" $d/log | head -3
      rc=1
    elif [ "$r" != 0 ]; then
      art=$(ls $d/crash-* 2>/dev/null | head -1)
      if [ -n "$art" ] && [ "$ID" = C05 ]; then
        # C05 is "no input kills or corrupts the node": an input that ends the process with no verdict is a violation
        sub=${t#c05_}
        out=$V/replays/$ID/found/fuzz-bytes-$(basename $art).json; mkdir -p $(dirname $out)
        python3 - "$art" "$out" "$ID" "$sub" <<'P'
import sys, json
b = open(sys.argv[1], "rb").read()
json.dump({"property": sys.argv[3], "sub": "fuzz-bytes/" + sys.argv[4], "signature": f"{sys.argv[3]}/{sys.argv[4]}/process-killed-by-input",
           "case": {"hex": b.hex()}, "found_by": "libFuzzer"}, open(sys.argv[2], "w"), indent=1)
P
        # confirm in a child process before reporting
        if $V/harness/target/debug/vcheck replay $out > $d/confirm.log 2>&1; then
          echo "note: libFuzzer worker $t.$w died (rc=$r) but its input replays cleanly; inconclusive"; rm -f $out; [ $rc = 0 ] && rc=2
        elif grep -q "^VIOLATION" $d/confirm.log; then
          grep -A2 "^VIOLATION" $d/confirm.log; rc=1
        else
          rm -f $out; [ $rc = 0 ] && rc=2
        fi
      else
        echo "INCONCLUSIVE: libFuzzer worker $t.$w ended with status $r and no verdict"; tail -5 $d/log
        [ $rc = 0 ] && rc=2
      fi
    fi
  done
  python3 $V/tools/fuzz_evidence.py merge "$ID" "$t" $W/$t.*/
done
exit $rc
