#!/usr/bin/env bash
# usage: run_suite.sh <worktree dir>   -- runs the repository's full test suite there and reports
# which tests of the known-stable set did not pass (empty list = suite passes as before).
# Stable tests that fail in the full (heavily parallel) run are retried alone up to 12 times, 3 s apart:
# several are timing-sensitive and fail only under machine load.
set -u
D=${1:?worktree}
cd "$D"
export CARGO_NET_OFFLINE=true
cargo nextest run --workspace --no-fail-fast --tool-config-file pb:/w/lib/nextest.toml --profile pb --test-threads 8 --offline >"$D/suite.log" 2>&1
python3 - "$D/target/nextest/pb/junit.xml" > "$D/target/suite_missing.txt" <<'P'
import json,sys,xml.etree.ElementTree as ET
b=json.load(open('/root/.vp/BASELINE.json'))
root=ET.parse(sys.argv[1]).getroot()
passed=set();failed=set()
for tc in root.iter('testcase'):
    tid=(tc.get('classname') or '')+'::'+(tc.get('name') or '')
    if tc.find('failure') is not None or tc.find('error') is not None: failed.add(tid)
    elif tc.find('skipped') is not None: pass
    else: passed.add(tid)
passed-=failed
missing=[t for t in b['stable_pass'] if t not in passed]
print(f"passed={len(passed)} failed={len(failed)} stable_expected={len(b['stable_pass'])} stable_not_passing={len(missing)}", file=sys.stderr)
for m in missing: print(m)
P
STILL=0
while read -r T; do
  [ -z "$T" ] && continue
  BIN=$(echo "$T" | awk -F'::' '{print $2}'); NAME=$(echo "$T" | sed -E 's/^[^:]+::[^:]+:://')
  if [ -f "$D/tests/$BIN.rs" ]; then FILTER="binary(=$BIN) & test(=$NAME)"; else FILTER="test(=${T#saorsa-core::})"; fi
  OK=0
  for i in 1 2 3 4 5 6 7 8 9 10 11 12; do sleep 3;
    if cargo nextest run --workspace --offline --test-threads 1 -E "$FILTER" >>"$D/suite_retry.log" 2>&1; then OK=1; break; fi
  done
  if [ $OK -eq 1 ]; then echo "RETRIED-OK (alone): $T"; else echo "NOT PASSING: $T"; STILL=1; fi
done < "$D/target/suite_missing.txt"
[ $STILL -eq 0 ] && echo "stable set passes" 
exit $STILL
