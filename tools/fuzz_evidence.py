#!/usr/bin/env python3
"""Adds what the libFuzzer stage measured to /verif/evidence/<ID>.json (written just before by the proptest stage).
   fuzz_evidence.py note  <ID> <text>
   fuzz_evidence.py merge <ID> <target> <worker dir>...
Counts come from the targets' own counters (harness/src/fuzz.rs, written at exit) and libFuzzer's final stats."""
import json, re, sys, os

def load(i):
    p = f"/verif/evidence/{i}.json"
    return p, json.load(open(p))

def main():
    cmd, i = sys.argv[1], sys.argv[2]
    try:
        p, ev = load(i)
    except Exception as e:
        print(f"note: no evidence file to extend for {i}: {e}")
        return
    cov = ev["coverage"]
    if cmd == "note":
        cov.setdefault("notes", []).append(sys.argv[3])
    else:
        target, dirs = sys.argv[3], sys.argv[4:]
        tot = {"execs": 0, "decoded": 0, "nontrivial": 0, "known_finding_hits": 0, "harness_errors": 0}
        classes, samples, units, cov_pcs, workers = {}, [], 0, 0, 0
        for d in dirs:
            try:
                st = json.load(open(os.path.join(d, "stats.json")))
            except Exception:
                continue
            workers += 1
            for k in tot:
                tot[k] += int(st.get(k, 0))
            for k, n in st.get("classes", {}).items():
                classes[k] = classes.get(k, 0) + n
            samples += st.get("samples", [])[:2]
            try:
                log = open(os.path.join(d, "log"), errors="replace").read()
                m = re.search(r"stat::number_of_executed_units:\s*(\d+)", log)
                units += int(m.group(1)) if m else 0
                c = re.findall(r"cov: (\d+)", log)
                cov_pcs = max(cov_pcs, int(c[-1]) if c else 0)
            except Exception:
                pass
        sub = {"evaluations": tot["decoded"], "distinct_nontrivial": tot["nontrivial"], "exhaustive": False, "classes": classes,
               "counters": {"libfuzzer_executed_units": units, "workers": workers, "max_edge_coverage_of_a_worker": cov_pcs,
                            "known_finding_hits": tot["known_finding_hits"], "harness_errors": tot["harness_errors"]}}
        cov.setdefault("sub_checks", {})[f"libfuzzer/{target}"] = sub
        cov["evaluations"] = int(cov.get("evaluations", 0)) + tot["decoded"]
        # non-trivial cases of the fuzz stage are deduplicated per worker (hash of the decoded case) but not against the
        # proptest stage, so they are reported in the sub-check only and not added to the run's total
        cov.setdefault("notes", []).append(
            f"libFuzzer stage {target}: {workers} workers, {units} executed units, {tot['decoded']} decoded into cases, "
            f"{tot['nontrivial']} distinct non-trivial by the same rule (distinct per worker; reported in the sub-check only, not added to the run's distinct_nontrivial, which is not deduplicated across stages)")
        for s in samples[:3]:
            cov.setdefault("samples", []).append({"sub": f"libfuzzer/{target}", "case_debug": s})
        if "libFuzzer" not in cov.get("rule", ""):
            cov["rule"] = cov.get("rule", "") + " | libFuzzer stage: the fuzzer's bytes are decoded (arbitrary::Unstructured, same shapes and ranges as the strategies, plus raw-byte variants) into the same case types; same interpreter, oracle and non-triviality rule"
    json.dump(ev, open(p, "w"), indent=1)

main()
