#!/usr/bin/env python3
"""usage: write_meta.py <seeded dir> <change> <needs_to_manifest> <sig,sig,...> [note]
Writes meta.json from confirm.json (produced by confirm_mutant.sh) and the given texts."""
import json, sys, os, glob
d = sys.argv[1].rstrip('/')
name = os.path.basename(d); prop = name.split('-')[0]
c = json.load(open(f"{d}/confirm.json"))
demo = os.path.basename(glob.glob(f"{d}/verif_demo_*.rs")[0])
feat = open(f"{d}/features.txt").read().strip() if os.path.exists(f"{d}/features.txt") else ""
suite_ok = c.get("suite_stable_all_pass")
meta = {
 "property": prop,
 "change": sys.argv[2],
 "needs_to_manifest": sys.argv[3],
 "author": "independent sub-agent given only the property text and a scratch worktree",
 "confirmed": {
  "repo_head": c.get("repo_head"),
  "patch_applies_and_compiles": bool(c.get("applies")),
  "demo": demo + (f" (cargo test --features {feat})" if feat else ""),
  "demo_with_patch": "fails (exit %s)" % c.get("demo_with_patch_exit"),
  "demo_without_patch": "passes" if c.get("demo_without_patch_exit") == 0 else "exit %s" % c.get("demo_without_patch_exit"),
  "existing_suite_with_patch": ("all 1484 stable tests pass (timing-sensitive ones retried alone)" if suite_ok else c.get("suite_note", "see confirm.json")) + "; " + c.get("suite_summary", ""),
  "how": "tools/confirm_mutant.sh in a scratch worktree: cargo test --test <demo> with and without the patch; tools/run_suite.sh with the patch",
 },
 "detected_by": {"check": f"./check {prop} quick", "signatures": [s for s in sys.argv[4].split(',') if s]},
}
if len(sys.argv) > 5: meta["detected_by"]["note"] = sys.argv[5]
json.dump(meta, open(f"{d}/meta.json", "w"), indent=1)
print("wrote", f"{d}/meta.json")
