#![no_main]
use libfuzzer_sys::fuzz_target;

#[global_allocator]
static GLOBAL: vcheck::engine::CountingAlloc = vcheck::engine::CountingAlloc;

fuzz_target!(|data: &[u8]| {
    vcheck::fuzz::one("C04", "core", data);
});
