//! Entry points for the libFuzzer targets in /verif/fuzz: the fuzzer's bytes are decoded (arbitrary::Unstructured,
//! hand-written decoders next to each strategy, same shapes and ranges) into the same case types the proptest stage
//! generates, the case runs through the same interpreter and oracle, and a failure that is not a recorded known
//! finding is saved as an ordinary JSON replay file (the decoded case) before the target aborts.
use crate::engine::*;
use crate::props;
use serde::Serialize;
use std::collections::BTreeMap;
use std::sync::atomic::{AtomicU64, Ordering};
use std::sync::Mutex;

pub static EXECS: AtomicU64 = AtomicU64::new(0);
pub static DECODED: AtomicU64 = AtomicU64::new(0);
pub static NONTRIVIAL: AtomicU64 = AtomicU64::new(0);
pub static KNOWN_HITS: AtomicU64 = AtomicU64::new(0);
pub static HARNESS_ERRORS: AtomicU64 = AtomicU64::new(0);
static CLASSES: Mutex<BTreeMap<String, u64>> = Mutex::new(BTreeMap::new());
static SAMPLES: Mutex<Vec<String>> = Mutex::new(Vec::new());
/// hashes of the non-trivial cases seen so far (NONTRIVIAL counts distinct ones)
static SEEN: Mutex<Option<std::collections::HashSet<[u8; 8]>>> = Mutex::new(None);

extern "C" fn write_stats() {
    if let Ok(path) = std::env::var("VERIF_FUZZ_STATS") {
        let classes = CLASSES.lock().map(|c| c.clone()).unwrap_or_default();
        let samples = SAMPLES.lock().map(|c| c.clone()).unwrap_or_default();
        let body = serde_json::json!({
            "execs": EXECS.load(Ordering::Relaxed), "decoded": DECODED.load(Ordering::Relaxed),
            "nontrivial": NONTRIVIAL.load(Ordering::Relaxed), "known_finding_hits": KNOWN_HITS.load(Ordering::Relaxed),
            "harness_errors": HARNESS_ERRORS.load(Ordering::Relaxed), "classes": classes, "samples": samples,
        });
        let _ = std::fs::write(path, serde_json::to_vec_pretty(&body).unwrap_or_default());
    }
}

fn judge<C: Serialize + std::fmt::Debug>(id: &str, sub: &str, case: &C, v: Verdict) {
    DECODED.fetch_add(1, Ordering::Relaxed);
    if v.harness_error.is_some() {
        HARNESS_ERRORS.fetch_add(1, Ordering::Relaxed);
        return;
    }
    let fresh = v.nontrivial && {
        let h = blake3::hash(format!("{sub}{case:?}").as_bytes());
        let mut k = [0u8; 8];
        k.copy_from_slice(&h.as_bytes()[..8]);
        SEEN.lock().map(|mut s| s.get_or_insert_with(Default::default).insert(k)).unwrap_or(false)
    };
    if fresh {
        let n = NONTRIVIAL.fetch_add(1, Ordering::Relaxed);
        if n < 4000 && n % 1000 == 7 {
            if let Ok(mut s) = SAMPLES.lock() {
                s.push(trunc(&format!("{case:?}"), 300));
            }
        }
    }
    if let Ok(mut c) = CLASSES.lock() {
        for k in &v.classes {
            *c.entry(k.clone()).or_insert(0) += 1;
        }
        for (k, n) in &v.counters {
            *c.entry(k.clone()).or_insert(0) += *n;
        }
    }
    if v.fails.is_empty() {
        return;
    }
    let known = load_known_findings();
    for f in &v.fails {
        if known.iter().any(|k| k.property == id && k.status == "known" && k.signature == f.sig) {
            KNOWN_HITS.fetch_add(1, Ordering::Relaxed);
            continue;
        }
        let dir = format!("{VERIF_DIR}/replays/{id}/found");
        let _ = std::fs::create_dir_all(&dir);
        let body = serde_json::json!({"property": id, "sub": sub, "signature": f.sig, "message": f.msg, "case": serde_json::to_value(case).unwrap_or(serde_json::Value::Null), "found_by": "libFuzzer"});
        let h = hex::encode(&hash16(&body)[..6]);
        let path = format!("{dir}/fuzz-{}-{h}.json", sub.replace('/', "_"));
        let _ = std::fs::write(&path, serde_json::to_vec_pretty(&body).unwrap_or_default());
        println!("VIOLATION property={id} replay={path}");
        println!("  signature: {}", f.sig);
        println!("  detail: {}", trunc(&f.msg, 1200));
        std::process::abort();
    }
}

/// Run one fuzz input for (property, sub-check). Unknown pairs are ignored.
pub fn one(id: &str, sub: &str, data: &[u8]) {
    install_panic_hook_once();
    EXECS.fetch_add(1, Ordering::Relaxed);
    if id == "C05" {
        install_log_sink();
    }
    match (id, sub) {
        ("C05", "inbound") => {
            if let Some(c) = props::c05::decode_inbound(data) {
                let v = guarded(id, sub, &c, props::c05::check_inbound);
                judge(id, sub, &c, v);
            }
        }
        ("C05", "core") => {
            if let Some(c) = props::c05::decode_core(data) {
                let v = guarded(id, sub, &c, props::c05::check_core);
                judge(id, sub, &c, v);
            }
        }
        ("C05", "reply") => {
            if let Some(c) = props::c05::decode_reply(data) {
                let v = guarded(id, sub, &c, props::c05::check_reply);
                judge(id, sub, &c, v);
            }
        }
        ("C04", "core") => {
            if let Some(c) = props::c04::decode_core(data) {
                let v = guarded(id, sub, &c, props::c04::check_core);
                judge(id, sub, &c, v);
            }
        }
        ("C07", "corrupt") => {
            if let Some(c) = props::c07::decode(data) {
                let v = guarded(id, sub, &c, props::c07::check);
                judge(id, sub, &c, v);
            }
        }
        ("C19", "addr") => {
            if let Some(c) = props::c19::decode_addr(data) {
                let v = guarded(id, "ipv4_random", &c, props::c19::check_one);
                judge(id, "ipv4_random", &c, v);
            }
        }
        ("C19", "malformed") => {
            if let Some(c) = props::c19::decode_bad(data) {
                let v = guarded(id, sub, &c, props::c19::check_bad);
                judge(id, sub, &c, v);
            }
            // and the raw bytes as a string, straight into the parsers
            if let Ok(s) = std::str::from_utf8(data) {
                let c = props::c19::Bad::Random(s.chars().take(200).collect());
                let v = guarded(id, sub, &c, props::c19::check_bad);
                judge(id, sub, &c, v);
            }
        }
        ("C06", "history") => {
            if let Some(c) = props::c06::decode(data) {
                let v = guarded(id, sub, &c, props::c06::check);
                judge(id, sub, &c, v);
            }
        }
        ("C02", "engine") => {
            if let Some(c) = props::c02::decode(data) {
                let v = guarded(id, sub, &c, props::c02::check);
                judge(id, sub, &c, v);
            }
        }
        _ => {}
    }
}

fn guarded<C>(id: &str, sub: &str, case: &C, f: fn(&C) -> Verdict) -> Verdict {
    match no_panic(|| f(case)) {
        Ok(v) => v,
        Err(p) if is_harness_panic(&p) => {
            let mut v = Verdict::new();
            v.harness_error = Some(p);
            v
        }
        Err(p) => {
            let mut v = Verdict::new();
            let loc = p.rsplit(" @ ").next().unwrap_or("").rsplit("/src/").next().unwrap_or("").split(':').next().unwrap_or("").to_string();
            v.fail(format!("{id}/{sub}/panic@{loc}"), p);
            v
        }
    }
}

fn install_panic_hook_once() {
    static ONCE: std::sync::Once = std::sync::Once::new();
    ONCE.call_once(|| {
        install_panic_hook();
        unsafe {
            libc::atexit(write_stats);
        }
    });
}
