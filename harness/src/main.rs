//! vcheck — property-based checks C01..C20 for saorsa-core.
//!   vcheck run <ID> [--tier quick|thorough] [--seed N]
//!   vcheck replay <file>
use vcheck::{engine, props};

use engine::{Run, Tier};

#[global_allocator]
static GLOBAL: engine::CountingAlloc = engine::CountingAlloc;

fn usage() -> ! {
    eprintln!("usage: vcheck run <ID> [--tier quick|thorough] [--seed N] | vcheck replay <file> | vcheck list");
    std::process::exit(2)
}

fn main() {
    engine::install_panic_hook();
    // use every file descriptor the environment allows (many short-lived runtimes per second)
    unsafe {
        let mut lim = libc::rlimit { rlim_cur: 0, rlim_max: 0 };
        if libc::getrlimit(libc::RLIMIT_NOFILE, &mut lim) == 0 && lim.rlim_cur < lim.rlim_max {
            lim.rlim_cur = lim.rlim_max;
            let _ = libc::setrlimit(libc::RLIMIT_NOFILE, &lim);
        }
    }
    let args: Vec<String> = std::env::args().collect();
    if args.len() < 2 {
        usage();
    }
    if cfg!(debug_assertions) {
        eprintln!("vcheck must be built with debug assertions off (shipping semantics)");
        std::process::exit(2);
    }
    let env_seed = std::env::var("VERIF_SEED").ok().and_then(|s| s.trim().parse::<i64>().ok()).map(|v| v as u64);
    let env_tier = std::env::var("VERIF_TIER").ok();
    match args[1].as_str() {
        "fdtest" => {
            // diagnostic: which construction leaks file descriptors across cases?
            let count = || std::fs::read_dir("/proc/self/fd").map(|d| d.count()).unwrap_or(0);
            let mode = args.get(2).cloned().unwrap_or_default();
            let f0 = count();
            for i in 0..60u8 {
                let rt = engine::paused_rt();
                rt.block_on(async {
                    use vcheck::memnet::*;
                    if mode == "rt" {
                        return;
                    }
                    let hub = Hub::new(1, 0);
                    if mode == "th" {
                        let tid = hex::encode([i; 32]);
                        let th = std::sync::Arc::new(saorsa_core::transport_handle::TransportHandle::verif_new_mem(tid.clone(), tid.clone(), hub.clone(), std::time::Duration::from_secs(2)));
                        if args.get(3).is_some() {
                            let _ = th.start_network_listeners().await;
                        }
                        return;
                    }
                    if mode == "mgr-new" || mode == "mgr-new-shutdown" {
                        let tid = hex::encode([i; 32]);
                        let th = std::sync::Arc::new(saorsa_core::transport_handle::TransportHandle::verif_new_mem(tid.clone(), tid.clone(), hub.clone(), std::time::Duration::from_secs(2)));
                        let mut cfg = saorsa_core::dht_network_manager::DhtNetworkConfig::default();
                        cfg.local_peer_id = tid.clone();
                        let m = saorsa_core::dht_network_manager::DhtNetworkManager::new(th, None, cfg).await.unwrap();
                        if mode == "mgr-new-shutdown" {
                            m.verif_core().read().await.signal_shutdown();
                            tokio::time::sleep(std::time::Duration::from_secs(120)).await;
                        }
                        return;
                    }
                    if mode == "nostart" || mode == "start" || mode == "start-stop" {
                        let tid = hex::encode([i; 32]);
                        let th = std::sync::Arc::new(saorsa_core::transport_handle::TransportHandle::verif_new_mem(tid.clone(), tid.clone(), hub.clone(), std::time::Duration::from_secs(2)));
                        hub.register(&tid, node_addr(0), Some(th.clone()), None);
                        let _ = th.start_network_listeners().await;
                        let mut cfg = saorsa_core::dht_network_manager::DhtNetworkConfig::default();
                        cfg.local_peer_id = tid.clone();
                        let m = std::sync::Arc::new(saorsa_core::dht_network_manager::DhtNetworkManager::new(th, None, cfg).await.unwrap());
                        if mode != "nostart" {
                            m.start().await.unwrap();
                        }
                        if mode == "start-stop" {
                            let _ = tokio::time::timeout(std::time::Duration::from_secs(60), m.stop()).await;
                        }
                        return;
                    }
                    if mode == "core" {
                        let e = saorsa_core::dht::core_engine::DhtCoreEngine::verif_new_log_only(saorsa_core::dht::core_engine::NodeId::from_bytes([i; 32])).unwrap();
                        e.start_maintenance_tasks();
                        return;
                    }
                    let n = add_node(&hub, [i; 32], node_addr(0), None, std::time::Duration::from_secs(2), 8).await.unwrap();
                    if mode == "node+stop" {
                        let _ = n.mgr.stop().await;
                        let _ = n.th.stop().await;
                    }
                });
                drop(rt);
            }
            println!("mode={mode} fds before={f0} after={}", count());
        }
        "list" => {
            for (id, _, _, _) in props::REGISTRY {
                println!("{id}");
            }
        }
        "run" => {
            let id = args.get(2).cloned().unwrap_or_else(|| usage());
            let mut tier = None;
            let mut seed = env_seed.unwrap_or(0);
            let mut i = 3;
            while i < args.len() {
                match args[i].as_str() {
                    "--tier" => {
                        tier = args.get(i + 1).cloned();
                        i += 2;
                    }
                    "--seed" => {
                        seed = args.get(i + 1).and_then(|s| s.parse::<i64>().ok()).map(|v| v as u64).unwrap_or(seed);
                        i += 2;
                    }
                    _ => usage(),
                }
            }
            let tier = tier.or(env_tier).unwrap_or_else(|| "quick".into());
            let tier = match tier.as_str() {
                "quick" => Tier::Quick,
                "thorough" => Tier::Thorough,
                _ => usage(),
            };
            let Some((_, level, runf, replayf)) = props::REGISTRY.iter().find(|(i, _, _, _)| *i == id) else {
                eprintln!("unknown property {id}");
                std::process::exit(2)
            };
            let run = Run::new(&id, tier, seed, level);
            run.replay_dir(replayf);
            runf(&run);
            std::process::exit(run.finish());
        }
        "replay" => {
            let path = args.get(2).cloned().unwrap_or_else(|| usage());
            let s = std::fs::read_to_string(&path).unwrap_or_else(|e| {
                eprintln!("cannot read {path}: {e}");
                std::process::exit(2)
            });
            let v: serde_json::Value = serde_json::from_str(&s).unwrap_or_else(|e| {
                eprintln!("cannot parse {path}: {e}");
                std::process::exit(2)
            });
            let id = v.get("property").and_then(|x| x.as_str()).unwrap_or("").to_string();
            let sub = v.get("sub").and_then(|x| x.as_str()).unwrap_or("").to_string();
            let case = v.get("case").cloned().unwrap_or(serde_json::Value::Null);
            let Some((_, level, _, replayf)) = props::REGISTRY.iter().find(|(i, _, _, _)| *i == id) else {
                eprintln!("unknown property {id}");
                std::process::exit(2)
            };
            engine::QUIET_PANICS.store(false, std::sync::atomic::Ordering::Relaxed);
            let mut run = Run::new(&id, Tier::Quick, env_seed.unwrap_or(0), level);
            run.strict = true;
            match replayf(&run, &sub, &case) {
                None => {
                    eprintln!("replay: unknown sub-check '{sub}' or undecodable case");
                    std::process::exit(2)
                }
                Some(ok) => {
                    // replay does not rewrite evidence
                    let known = run.known_hit_lines();
                    for l in known {
                        println!("{l}");
                    }
                    if ok {
                        println!("replay {path}: property held");
                        std::process::exit(0)
                    } else {
                        std::process::exit(1)
                    }
                }
            }
        }
        _ => usage(),
    }
}
