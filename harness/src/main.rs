//! vcheck — property-based checks C01..C20 for saorsa-core.
//!   vcheck run <ID> [--tier quick|thorough] [--seed N]
//!   vcheck replay <file>
//!   vcheck fuzz-one <ID> <sub> <raw input file>
use vcheck::{engine, props};

use engine::{Run, Tier};

#[global_allocator]
static GLOBAL: engine::CountingAlloc = engine::CountingAlloc;

fn usage() -> ! {
    eprintln!("usage: vcheck run <ID> [--tier quick|thorough] [--seed N] | vcheck replay <file> | vcheck list");
    std::process::exit(2)
}

fn main() {
    engine::install_panic_hook();
    // use every file descriptor the environment allows (many short-lived runtimes per second)
    unsafe {
        let mut lim = libc::rlimit { rlim_cur: 0, rlim_max: 0 };
        if libc::getrlimit(libc::RLIMIT_NOFILE, &mut lim) == 0 && lim.rlim_cur < lim.rlim_max {
            lim.rlim_cur = lim.rlim_max;
            let _ = libc::setrlimit(libc::RLIMIT_NOFILE, &lim);
        }
    }
    let args: Vec<String> = std::env::args().collect();
    if args.len() < 2 {
        usage();
    }
    if cfg!(debug_assertions) {
        eprintln!("vcheck must be built with debug assertions off (shipping semantics)");
        std::process::exit(2);
    }
    let env_seed = std::env::var("VERIF_SEED").ok().and_then(|s| s.trim().parse::<i64>().ok()).map(|v| v as u64);
    let env_tier = std::env::var("VERIF_TIER").ok();
    match args[1].as_str() {
        "fuzz-one" => {
            // vcheck fuzz-one <ID> <sub> <file>: one raw fuzz input through the same entry point the libFuzzer targets use
            let (id, sub, path) = (args.get(2).cloned().unwrap_or_else(|| usage()), args.get(3).cloned().unwrap_or_else(|| usage()), args.get(4).cloned().unwrap_or_else(|| usage()));
            let data = std::fs::read(&path).unwrap_or_else(|e| {
                eprintln!("cannot read {path}: {e}");
                std::process::exit(2)
            });
            vcheck::fuzz::one(&id, &sub, &data);
            println!("fuzz-one {id}/{sub} {path}: property held");
        }
        "list" => {
            for (id, _, _, _) in props::REGISTRY {
                println!("{id}");
            }
        }
        "run" => {
            let id = args.get(2).cloned().unwrap_or_else(|| usage());
            let mut tier = None;
            let mut seed = env_seed.unwrap_or(0);
            let mut i = 3;
            while i < args.len() {
                match args[i].as_str() {
                    "--tier" => {
                        tier = args.get(i + 1).cloned();
                        i += 2;
                    }
                    "--seed" => {
                        seed = args.get(i + 1).and_then(|s| s.parse::<i64>().ok()).map(|v| v as u64).unwrap_or(seed);
                        i += 2;
                    }
                    _ => usage(),
                }
            }
            let tier = tier.or(env_tier).unwrap_or_else(|| "quick".into());
            let tier = match tier.as_str() {
                "quick" => Tier::Quick,
                "thorough" => Tier::Thorough,
                _ => usage(),
            };
            let Some((_, level, runf, replayf)) = props::REGISTRY.iter().find(|(i, _, _, _)| *i == id) else {
                eprintln!("unknown property {id}");
                std::process::exit(2)
            };
            let run = Run::new(&id, tier, seed, level);
            if id == "C05" || id == "C07" {
                engine::TRACK_INFLIGHT.store(true, std::sync::atomic::Ordering::Relaxed);
            }
            run.replay_dir(replayf);
            runf(&run);
            std::process::exit(run.finish());
        }
        "replay" => {
            let path = args.get(2).cloned().unwrap_or_else(|| usage());
            let s = std::fs::read_to_string(&path).unwrap_or_else(|e| {
                eprintln!("cannot read {path}: {e}");
                std::process::exit(2)
            });
            let v: serde_json::Value = serde_json::from_str(&s).unwrap_or_else(|e| {
                eprintln!("cannot parse {path}: {e}");
                std::process::exit(2)
            });
            let id = v.get("property").and_then(|x| x.as_str()).unwrap_or("").to_string();
            let sub = v.get("sub").and_then(|x| x.as_str()).unwrap_or("").to_string();
            let case = v.get("case").cloned().unwrap_or(serde_json::Value::Null);
            if let Some(fsub) = sub.strip_prefix("fuzz-bytes/") {
                // a libFuzzer input that killed the process (no verdict could be written): run it in a child process
                let bytes = case.get("hex").and_then(|h| h.as_str()).and_then(|h| hex::decode(h).ok()).unwrap_or_else(|| {
                    eprintln!("replay: no hex bytes in {path}");
                    std::process::exit(2)
                });
                let tmp = format!("{}/work/replay-{}.bin", engine::VERIF_DIR, std::process::id());
                let _ = std::fs::create_dir_all(format!("{}/work", engine::VERIF_DIR));
                let _ = std::fs::write(&tmp, &bytes);
                let st = std::process::Command::new(std::env::current_exe().unwrap_or_else(|_| "vcheck".into())).args(["fuzz-one", &id, fsub, &tmp]).status();
                let _ = std::fs::remove_file(&tmp);
                match st {
                    Ok(st) if st.success() => {
                        println!("replay {path}: property held");
                        std::process::exit(0)
                    }
                    Ok(st) => {
                        use std::os::unix::process::ExitStatusExt;
                        if st.signal().is_some() || st.code() == Some(134) {
                            println!("VIOLATION property={id} replay={path}");
                            println!("  signature: {id}/{fsub}/process-killed-by-input");
                            println!("  detail: child ended with {st}");
                            std::process::exit(1)
                        }
                        eprintln!("replay: child ended with {st}");
                        std::process::exit(2)
                    }
                    Err(e) => {
                        eprintln!("replay: cannot start child: {e}");
                        std::process::exit(2)
                    }
                }
            }
            let Some((_, level, _, replayf)) = props::REGISTRY.iter().find(|(i, _, _, _)| *i == id) else {
                eprintln!("unknown property {id}");
                std::process::exit(2)
            };
            engine::QUIET_PANICS.store(false, std::sync::atomic::Ordering::Relaxed);
            let mut run = Run::new(&id, Tier::Quick, env_seed.unwrap_or(0), level);
            run.strict = true;
            engine::TRACK_INFLIGHT.store(true, std::sync::atomic::Ordering::Relaxed);
            match replayf(&run, &sub, &case) {
                None => {
                    eprintln!("replay: unknown sub-check '{sub}' or undecodable case");
                    std::process::exit(2)
                }
                Some(ok) => {
                    // replay does not rewrite evidence
                    let known = run.known_hit_lines();
                    for l in known {
                        println!("{l}");
                    }
                    if ok {
                        println!("replay {path}: property held");
                        std::process::exit(0)
                    } else {
                        std::process::exit(1)
                    }
                }
            }
        }
        _ => usage(),
    }
}
