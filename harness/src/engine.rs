#![allow(dead_code)]
//! Shared machinery: seeded proptest runners used from a binary, case
//! classification / distinct counting, known-findings filter, shrinking to a
//! replay file, evidence writer, panic capture and a thread-local counting
//! allocator.

use proptest::strategy::{Strategy, ValueTree};
use proptest::test_runner::{Config, RngAlgorithm, RngSeed, TestCaseError, TestError, TestRunner};
use serde::{de::DeserializeOwned, Deserialize, Serialize};
use serde_json::{json, Value};
use std::cell::{Cell, RefCell};
use std::collections::{BTreeMap, HashSet};
use std::panic::{catch_unwind, AssertUnwindSafe};
use std::sync::atomic::{AtomicBool, Ordering};
use std::sync::Mutex;
use std::time::Instant;

pub const VERIF_DIR: &str = "/verif";

// ---------------------------------------------------------------------------
// Counting allocator (thread-local counters, so shards do not disturb each other)
// ---------------------------------------------------------------------------
pub struct CountingAlloc;

thread_local! {
    static ALLOC_CUR: Cell<isize> = const { Cell::new(0) };
    static ALLOC_PEAK: Cell<isize> = const { Cell::new(0) };
    static ALLOC_ON: Cell<bool> = const { Cell::new(false) };
    static ALLOC_BIGGEST: Cell<usize> = const { Cell::new(0) };
}

/// A single request of this size or more, made while a case is being measured, is never served from real memory:
/// it gets address space only (mmap MAP_NORESERVE), so that the code under test carries on, the request is counted
/// like any other and the case fails its memory oracle through the normal path (shrinking, replay file) instead of
/// the process being aborted by the allocation-error handler. Requests too large even for that end the run with a
/// VIOLATION for the case in flight (see `absurd_fatal`).
pub const ABSURD_ALLOC: usize = 1 << 33;
static BIG_BLOCKS: Mutex<[(usize, usize); 32]> = Mutex::new([(0, 0); 32]);

thread_local! {
    /// (property id, sub-check, case as JSON) of the case this thread is evaluating; kept only when a check asks for it
    static INFLIGHT: RefCell<Option<(String, String, String)>> = const { RefCell::new(None) };
}
pub static TRACK_INFLIGHT: AtomicBool = AtomicBool::new(false);

unsafe fn big_alloc(size: usize) -> *mut u8 {
    let p = libc::mmap(std::ptr::null_mut(), size, libc::PROT_READ | libc::PROT_WRITE, libc::MAP_PRIVATE | libc::MAP_ANONYMOUS | libc::MAP_NORESERVE, -1, 0);
    if p == libc::MAP_FAILED {
        absurd_fatal(size);
    }
    if let Ok(mut g) = BIG_BLOCKS.lock() {
        if let Some(slot) = g.iter_mut().find(|s| s.0 == 0) {
            *slot = (p as usize, size);
        }
    }
    p as *mut u8
}
unsafe fn big_free(p: *mut u8) -> bool {
    let mut size = 0;
    if let Ok(mut g) = BIG_BLOCKS.lock() {
        if let Some(slot) = g.iter_mut().find(|s| s.0 == p as usize) {
            size = slot.1;
            *slot = (0, 0);
        }
    }
    if size > 0 {
        libc::munmap(p as *mut libc::c_void, size);
        true
    } else {
        false
    }
}
/// The code under test asked for more memory than even address space can provide: the process would be aborted.
/// Decide it here: write the case in flight as a replay file, print the VIOLATION line, exit 1.
fn absurd_fatal(size: usize) -> ! {
    let _ = ALLOC_ON.try_with(|c| c.set(false));
    let info = INFLIGHT.try_with(|c| c.borrow().clone()).ok().flatten();
    match info {
        Some((id, sub, case)) => {
            let sig = format!("{id}/{}/allocation-request-would-abort-the-process", sub.trim_start_matches("replay/"));
            let dir = format!("{VERIF_DIR}/replays/{id}/found");
            let _ = std::fs::create_dir_all(&dir);
            let body = format!("{{\n \"property\": \"{id}\",\n \"sub\": \"{}\",\n \"signature\": \"{sig}\",\n \"message\": \"a single allocation of {size} bytes was requested\",\n \"case\": {case}\n}}\n", sub.trim_start_matches("replay/"));
            let h = hex::encode(&blake3::hash(body.as_bytes()).as_bytes()[..6]);
            let path = format!("{dir}/{}-{h}.json", sub.replace('/', "_"));
            let _ = std::fs::write(&path, body);
            println!("VIOLATION property={id} replay={path}");
            println!("  signature: {sig}");
            println!("  detail: the code under test requested a single allocation of {size} bytes, which would abort the process; run ended here (no shrinking, evidence file not rewritten)");
            std::process::exit(1);
        }
        None => {
            println!("INCONCLUSIVE: a single allocation of {size} bytes was requested outside a tracked case");
            std::process::exit(2);
        }
    }
}
/// Remember the case this thread is about to evaluate (only when a check switched TRACK_INFLIGHT on).
pub fn set_inflight<C: Serialize>(id: &str, sub: &str, case: &C) {
    if TRACK_INFLIGHT.load(Ordering::Relaxed) {
        let j = serde_json::to_string(case).unwrap_or_else(|_| "null".into());
        let _ = INFLIGHT.try_with(|c| *c.borrow_mut() = Some((id.to_string(), sub.to_string(), j)));
    }
}

unsafe impl std::alloc::GlobalAlloc for CountingAlloc {
    unsafe fn alloc(&self, l: std::alloc::Layout) -> *mut u8 {
        let big = l.size() >= ABSURD_ALLOC && ALLOC_ON.try_with(|on| on.get()).unwrap_or(false);
        let p = if big { big_alloc(l.size()) } else { std::alloc::System.alloc(l) };
        let _ = ALLOC_ON.try_with(|on| {
            if on.get() {
                let _ = ALLOC_CUR.try_with(|c| {
                    let v = c.get() + l.size() as isize;
                    c.set(v);
                    let _ = ALLOC_PEAK.try_with(|p| {
                        if v > p.get() {
                            p.set(v)
                        }
                    });
                });
                let _ = ALLOC_BIGGEST.try_with(|b| {
                    if l.size() > b.get() {
                        b.set(l.size())
                    }
                });
            }
        });
        p
    }
    unsafe fn dealloc(&self, p: *mut u8, l: std::alloc::Layout) {
        if !(l.size() >= ABSURD_ALLOC && big_free(p)) {
            std::alloc::System.dealloc(p, l);
        }
        let _ = ALLOC_ON.try_with(|on| {
            if on.get() {
                let _ = ALLOC_CUR.try_with(|c| c.set(c.get() - l.size() as isize));
            }
        });
    }
    unsafe fn realloc(&self, p: *mut u8, l: std::alloc::Layout, new: usize) -> *mut u8 {
        if l.size() >= ABSURD_ALLOC || new >= ABSURD_ALLOC {
            // rare path: move by hand through alloc/dealloc above (which count and route by size)
            let nl = std::alloc::Layout::from_size_align_unchecked(new, l.align());
            let q = self.alloc(nl);
            if !q.is_null() {
                std::ptr::copy_nonoverlapping(p, q, l.size().min(new));
                self.dealloc(p, l);
            }
            return q;
        }
        let q = std::alloc::System.realloc(p, l, new);
        let _ = ALLOC_ON.try_with(|on| {
            if on.get() {
                let _ = ALLOC_CUR.try_with(|c| {
                    let v = c.get() + new as isize - l.size() as isize;
                    c.set(v);
                    let _ = ALLOC_PEAK.try_with(|p| {
                        if v > p.get() {
                            p.set(v)
                        }
                    });
                });
                let _ = ALLOC_BIGGEST.try_with(|b| {
                    if new > b.get() {
                        b.set(new)
                    }
                });
            }
        });
        q
    }
}

/// Start measuring heap growth on this thread.
pub fn alloc_begin() {
    ALLOC_CUR.with(|c| c.set(0));
    ALLOC_PEAK.with(|c| c.set(0));
    ALLOC_BIGGEST.with(|c| c.set(0));
    ALLOC_ON.with(|c| c.set(true));
}
/// Stop measuring; returns (peak growth in bytes, biggest single request).
pub fn alloc_end() -> (usize, usize) {
    ALLOC_ON.with(|c| c.set(false));
    (
        ALLOC_PEAK.with(|c| c.get()).max(0) as usize,
        ALLOC_BIGGEST.with(|c| c.get()),
    )
}

// ---------------------------------------------------------------------------
// Panic capture
// ---------------------------------------------------------------------------
thread_local! {
    static LAST_PANIC: RefCell<Option<String>> = const { RefCell::new(None) };
}
pub static QUIET_PANICS: AtomicBool = AtomicBool::new(true);
pub static ALL_PANICS: Mutex<Vec<String>> = Mutex::new(Vec::new());

pub fn install_panic_hook() {
    let default = std::panic::take_hook();
    std::panic::set_hook(Box::new(move |info| {
        let loc = info
            .location()
            .map(|l| format!("{}:{}", l.file(), l.line()))
            .unwrap_or_default();
        let msg = if let Some(s) = info.payload().downcast_ref::<&str>() {
            s.to_string()
        } else if let Some(s) = info.payload().downcast_ref::<String>() {
            s.clone()
        } else {
            "<non-string panic>".to_string()
        };
        let full = format!("{msg} @ {loc}");
        let _ = LAST_PANIC.try_with(|p| *p.borrow_mut() = Some(full.clone()));
        if let Ok(mut g) = ALL_PANICS.lock() {
            if g.len() < 10_000 {
                g.push(full);
            }
        }
        if !QUIET_PANICS.load(Ordering::Relaxed) {
            default(info);
        }
    }));
}

/// Number of panics seen process-wide so far (any thread, any task).
pub fn panic_count() -> usize {
    ALL_PANICS.lock().map(|g| g.len()).unwrap_or(0)
}
pub fn panics_since(n: usize) -> Vec<String> {
    ALL_PANICS
        .lock()
        .map(|g| g.iter().skip(n).cloned().collect())
        .unwrap_or_default()
}

pub fn take_last_panic() -> Option<String> {
    LAST_PANIC.with(|p| p.borrow_mut().take())
}

/// Run `f`, turning a panic into `Err(message @ location)`.
pub fn no_panic<T>(f: impl FnOnce() -> T) -> Result<T, String> {
    match catch_unwind(AssertUnwindSafe(f)) {
        Ok(v) => Ok(v),
        Err(_) => Err(take_last_panic().unwrap_or_else(|| "panic".into())),
    }
}

// ---------------------------------------------------------------------------
// Log sink: a tracing subscriber that enables every level and formats every field into a scratch buffer, so that
// the code under test evaluates the arguments of its log lines exactly as it does in production with logging on
// (a panic inside a log line's argument - e.g. slicing a hostile string - is a panic of the code under test).
// ---------------------------------------------------------------------------
struct LogSink;
struct SinkVisitor(usize);
impl tracing::field::Visit for SinkVisitor {
    fn record_debug(&mut self, _f: &tracing::field::Field, v: &dyn std::fmt::Debug) {
        use std::fmt::Write;
        struct Count<'a>(&'a mut usize);
        impl Write for Count<'_> {
            fn write_str(&mut self, s: &str) -> std::fmt::Result {
                *self.0 += s.len();
                Ok(())
            }
        }
        let _ = write!(Count(&mut self.0), "{v:?}");
    }
}
impl tracing::Subscriber for LogSink {
    fn enabled(&self, _m: &tracing::Metadata<'_>) -> bool {
        true
    }
    fn new_span(&self, _s: &tracing::span::Attributes<'_>) -> tracing::span::Id {
        tracing::span::Id::from_u64(1)
    }
    fn record(&self, _s: &tracing::span::Id, _v: &tracing::span::Record<'_>) {}
    fn record_follows_from(&self, _s: &tracing::span::Id, _f: &tracing::span::Id) {}
    fn event(&self, e: &tracing::Event<'_>) {
        let mut v = SinkVisitor(0);
        e.record(&mut v);
    }
    fn enter(&self, _s: &tracing::span::Id) {}
    fn exit(&self, _s: &tracing::span::Id) {}
}
/// Switch logging "on" for the whole process (idempotent).
pub fn install_log_sink() {
    let _ = tracing::subscriber::set_global_default(LogSink);
}

// ---------------------------------------------------------------------------
// Verdict of one case
// ---------------------------------------------------------------------------
#[derive(Debug, Clone)]
pub struct Fail {
    /// Root-cause signature: `<ID>/<call site>/<failure class>` — never contains the random input.
    pub sig: String,
    pub msg: String,
}

#[derive(Debug, Default, Clone)]
pub struct Verdict {
    /// set when the harness itself failed (not the code under test): reported as inconclusive, never as a violation
    pub harness_error: Option<String>,
    pub fails: Vec<Fail>,
    pub nontrivial: bool,
    pub classes: Vec<String>,
    /// extra numeric counters to be summed into the evidence
    pub counters: Vec<(String, u64)>,
}

impl Verdict {
    pub fn new() -> Self {
        Self::default()
    }
    pub fn fail(&mut self, sig: impl Into<String>, msg: impl Into<String>) {
        if self.fails.len() < 32 {
            self.fails.push(Fail { sig: sig.into(), msg: msg.into() });
        }
    }
    pub fn check(&mut self, cond: bool, sig: &str, msg: impl FnOnce() -> String) {
        if !cond {
            self.fail(sig, msg());
        }
    }
    pub fn class(&mut self, c: impl Into<String>) {
        self.classes.push(c.into());
    }
    pub fn nt(&mut self, b: bool) {
        self.nontrivial |= b;
    }
    pub fn count(&mut self, k: &str, n: u64) {
        self.counters.push((k.to_string(), n));
    }
    pub fn ok(&self) -> bool {
        self.fails.is_empty()
    }
}

// ---------------------------------------------------------------------------
// Known findings
// ---------------------------------------------------------------------------
#[derive(Debug, Clone, Deserialize)]
pub struct KnownFinding {
    pub property: String,
    pub signature: String,
    pub status: String, // "known" | "fixed"
    #[serde(default)]
    pub commit: Option<String>,
    pub what: String,
}

pub fn load_known_findings() -> Vec<KnownFinding> {
    let p = format!("{VERIF_DIR}/known_findings.json");
    match std::fs::read_to_string(&p) {
        Ok(s) => serde_json::from_str(&s).unwrap_or_else(|e| {
            eprintln!("known_findings.json unreadable: {e}");
            std::process::exit(2)
        }),
        Err(_) => Vec::new(),
    }
}

// ---------------------------------------------------------------------------
// Run context
// ---------------------------------------------------------------------------
#[derive(Debug, Clone, Copy, PartialEq, Eq)]
pub enum Tier {
    Quick,
    Thorough,
}
impl Tier {
    pub fn name(self) -> &'static str {
        match self {
            Tier::Quick => "quick",
            Tier::Thorough => "thorough",
        }
    }
    /// pick a size by tier
    pub fn pick<T>(self, q: T, t: T) -> T {
        match self {
            Tier::Quick => q,
            Tier::Thorough => t,
        }
    }
}

#[derive(Default)]
struct SubStats {
    evaluations: u64,
    distinct_nt: HashSet<[u8; 16]>,
    classes: BTreeMap<String, u64>,
    counters: BTreeMap<String, u64>,
    samples: Vec<Value>,
    nt_samples: Vec<Value>,
    rule: String,
    exhaustive: bool,
}

pub struct ViolationRec {
    pub sub: String,
    pub sig: String,
    pub msg: String,
    pub replay: String,
}

pub struct Run {
    pub id: String,
    pub tier: Tier,
    pub seed: u64,
    pub level: &'static str,
    pub strict: bool, // replay mode: known findings are not tolerated silently (still printed as KNOWN-FINDING)
    started: Instant,
    known: Vec<KnownFinding>,
    subs: Mutex<BTreeMap<String, SubStats>>,
    known_hits: Mutex<BTreeMap<String, (u64, String)>>,
    pub violations: Mutex<Vec<ViolationRec>>,
    pub assumptions: Mutex<Vec<String>>,
    pub notes: Mutex<Vec<String>>,
    pub inconclusive: Mutex<Vec<String>>,
    /// shrink iterations per failing shard (lower it for expensive cases)
    pub max_shrink: std::sync::atomic::AtomicU32,
}

fn salt(s: &str) -> u64 {
    let h = blake3::hash(s.as_bytes());
    u64::from_le_bytes(h.as_bytes()[..8].try_into().unwrap())
}

pub fn hash16(v: &impl Serialize) -> [u8; 16] {
    let b = serde_json::to_vec(v).unwrap_or_default();
    let h = blake3::hash(&b);
    h.as_bytes()[..16].try_into().unwrap()
}

impl Run {
    pub fn new(id: &str, tier: Tier, seed: u64, level: &'static str) -> Self {
        let known = load_known_findings()
            .into_iter()
            .filter(|k| k.property == id)
            .collect();
        Run {
            id: id.to_string(),
            tier,
            seed,
            level,
            strict: false,
            started: Instant::now(),
            known,
            subs: Mutex::new(BTreeMap::new()),
            known_hits: Mutex::new(BTreeMap::new()),
            violations: Mutex::new(Vec::new()),
            assumptions: Mutex::new(Vec::new()),
            notes: Mutex::new(Vec::new()),
            inconclusive: Mutex::new(Vec::new()),
            max_shrink: std::sync::atomic::AtomicU32::new(4000),
        }
    }

    pub fn assume(&self, s: &str) {
        self.assumptions.lock().unwrap().push(s.to_string());
    }
    pub fn note(&self, s: impl Into<String>) {
        self.notes.lock().unwrap().push(s.into());
    }

    pub fn is_known(&self, sig: &str) -> Option<&KnownFinding> {
        self.known
            .iter()
            .find(|k| k.status == "known" && k.signature == sig)
    }

    /// Split a verdict's failures into (unknown failures) after recording the known ones.
    fn filter_known(&self, v: &Verdict, counting: bool) -> Vec<Fail> {
        let mut out = Vec::new();
        for f in &v.fails {
            if let Some(k) = self.is_known(&f.sig) {
                if counting {
                    let mut g = self.known_hits.lock().unwrap();
                    let e = g.entry(f.sig.clone()).or_insert((0, k.what.clone()));
                    e.0 += 1;
                }
            } else {
                out.push(f.clone());
            }
        }
        out
    }

    fn record_case<C: Serialize>(&self, sub: &str, case: &C, v: &Verdict) {
        let mut g = self.subs.lock().unwrap();
        let s = g.entry(sub.to_string()).or_default();
        s.evaluations += 1;
        for c in &v.classes {
            *s.classes.entry(c.clone()).or_insert(0) += 1;
        }
        for (k, n) in &v.counters {
            *s.counters.entry(k.clone()).or_insert(0) += n;
        }
        if v.nontrivial {
            let fresh = s.distinct_nt.insert(hash16(case));
            if fresh && s.nt_samples.len() < 3 {
                s.nt_samples.push(truncate_json(serde_json::to_value(case).unwrap_or(Value::Null)));
            }
        } else if s.samples.len() < 1 {
            s.samples.push(truncate_json(serde_json::to_value(case).unwrap_or(Value::Null)));
        }
    }

    pub fn set_rule(&self, sub: &str, rule: &str) {
        let mut g = self.subs.lock().unwrap();
        g.entry(sub.to_string()).or_default().rule = rule.to_string();
    }
    pub fn set_exhaustive(&self, sub: &str) {
        let mut g = self.subs.lock().unwrap();
        g.entry(sub.to_string()).or_default().exhaustive = true;
    }

    /// Directly evaluate one explicit case (enumerations, replays, sweeps).
    /// Returns true if it passed (known findings tolerated).
    pub fn eval_case<C, F>(&self, sub: &str, case: &C, f: &F) -> bool
    where
        C: Serialize + std::fmt::Debug,
        F: Fn(&C) -> Verdict,
    {
        let v = run_guarded(sub, &self.id, case, f);
        if let Some(h) = &v.harness_error {
            let mut g = self.inconclusive.lock().unwrap();
            if g.len() < 5 {
                g.push(format!("{sub}: harness failure: {}", trunc(h, 300)));
            }
            return true;
        }
        self.record_case(sub, case, &v);
        let unknown = self.filter_known(&v, true);
        if let Some(first) = unknown.first() {
            self.report_violation(sub, case, first);
            false
        } else {
            true
        }
    }

    fn report_violation<C: Serialize>(&self, sub: &str, case: &C, f: &Fail) {
        let mut viol = self.violations.lock().unwrap();
        if viol.iter().any(|x| x.sig == f.sig) || viol.len() >= 8 {
            return;
        }
        let dir = format!("{VERIF_DIR}/replays/{}/found", self.id);
        let _ = std::fs::create_dir_all(&dir);
        let body = json!({
            "property": self.id,
            "sub": sub,
            "signature": f.sig,
            "message": f.msg,
            "case": serde_json::to_value(case).unwrap_or(Value::Null),
        });
        let h = hex::encode(&hash16(&body)[..6]);
        let path = format!("{dir}/{}-{h}.json", sub.replace('/', "_"));
        let _ = std::fs::write(&path, serde_json::to_vec_pretty(&body).unwrap());
        println!("VIOLATION property={} replay={}", self.id, path);
        println!("  signature: {}", f.sig);
        println!("  detail: {}", trunc(&f.msg, 1500));
        viol.push(ViolationRec { sub: sub.into(), sig: f.sig.clone(), msg: f.msg.clone(), replay: path });
    }

    /// Generated search: `cases` cases (split over `shards` threads), shrinking on failure.
    pub fn prop<S, F>(&self, sub: &str, cases: u32, shards: u32, strategy: S, f: F)
    where
        S: Strategy + Sync,
        S::Value: Serialize + std::fmt::Debug + Clone,
        F: Fn(&S::Value) -> Verdict + Sync,
    {
        let shards = shards.max(1).min(cases.max(1));
        let per = cases.div_ceil(shards);
        std::thread::scope(|sc| {
            for sh in 0..shards {
                let strategy = &strategy;
                let f = &f;
                sc.spawn(move || self.prop_shard(sub, per, sh, strategy, f));
            }
        });
    }

    /// Like `prop`, but every shard builds its own strategy (for strategies that are not `Sync`).
    pub fn prop_f<S, G, F>(&self, sub: &str, cases: u32, shards: u32, make: G, f: F)
    where
        S: Strategy,
        G: Fn() -> S + Sync,
        S::Value: Serialize + std::fmt::Debug + Clone,
        F: Fn(&S::Value) -> Verdict + Sync,
    {
        let shards = shards.max(1).min(cases.max(1));
        let per = cases.div_ceil(shards);
        std::thread::scope(|sc| {
            for sh in 0..shards {
                let make = &make;
                let f = &f;
                sc.spawn(move || self.prop_shard(sub, per, sh, make(), f));
            }
        });
    }

    fn prop_shard<S, F>(&self, sub: &str, cases: u32, shard: u32, strategy: S, f: &F)
    where
        S: Strategy,
        S::Value: Serialize + std::fmt::Debug + Clone,
        F: Fn(&S::Value) -> Verdict,
    {
        let mut seed_bytes = [0u8; 32];
        let s = self.seed ^ salt(&format!("{}/{}", self.id, sub)) ^ ((shard as u64) << 48 | shard as u64);
        let h = blake3::hash(&s.to_le_bytes());
        seed_bytes.copy_from_slice(h.as_bytes());
        let cfg = Config {
            cases,
            failure_persistence: None,
            max_shrink_iters: self.max_shrink.load(Ordering::Relaxed),
            max_shrink_time: 0,
            max_local_rejects: 1_000_000,
            max_global_rejects: 1_000_000,
            rng_algorithm: RngAlgorithm::ChaCha,
            rng_seed: RngSeed::Fixed(s),
            ..Config::default()
        };
        let _ = seed_bytes;
        let mut runner = TestRunner::new(cfg);
        let failed = Cell::new(false);
        let first_fail: RefCell<Option<Fail>> = RefCell::new(None);
        let last_fail: RefCell<Option<Fail>> = RefCell::new(None);
        let res = runner.run(&strategy, |case| {
            let v = run_guarded(sub, &self.id, &case, f);
            if let Some(h) = &v.harness_error {
                let mut g = self.inconclusive.lock().unwrap();
                if g.len() < 5 {
                    g.push(format!("{sub}: harness failure: {}", trunc(h, 300)));
                }
                return Ok(());
            }
            let counting = !failed.get();
            let unknown = self.filter_known(&v, counting);
            if counting {
                self.record_case(sub, &case, &v);
            }
            if let Some(ff) = unknown.into_iter().next() {
                if !failed.get() {
                    failed.set(true);
                    *first_fail.borrow_mut() = Some(ff.clone());
                }
                *last_fail.borrow_mut() = Some(ff.clone());
                Err(TestCaseError::fail(ff.sig))
            } else {
                Ok(())
            }
        });
        match res {
            Ok(()) => {}
            Err(TestError::Fail(_reason, value)) => {
                // re-evaluate the shrunk value to get its own failure text
                let v = run_guarded(sub, &self.id, &value, f);
                let unknown = self.filter_known(&v, false);
                let ff = unknown
                    .into_iter()
                    .next()
                    .or_else(|| last_fail.borrow().clone())
                    .or_else(|| first_fail.borrow().clone())
                    .unwrap_or(Fail { sig: format!("{}/{}/unstable", self.id, sub), msg: "failure did not reproduce on the shrunk value".into() });
                self.report_violation(sub, &value, &ff);
            }
            Err(TestError::Abort(r)) => {
                self.inconclusive
                    .lock()
                    .unwrap()
                    .push(format!("{sub}: generator aborted: {r}"));
            }
        }
    }

    /// Draw `n` values from a strategy deterministically (for sweeps that need generated material).
    pub fn draw<S: Strategy>(&self, tag: &str, strategy: &S, n: usize) -> Vec<S::Value> {
        let s = self.seed ^ salt(&format!("{}/draw/{}", self.id, tag));
        let cfg = Config { failure_persistence: None, rng_algorithm: RngAlgorithm::ChaCha, rng_seed: RngSeed::Fixed(s), ..Config::default() };
        let mut runner = TestRunner::new(cfg);
        (0..n)
            .filter_map(|_| strategy.new_tree(&mut runner).ok().map(|t| t.current()))
            .collect()
    }

    /// Replay files under replays/<ID>/ (regression tier), excluding found/.
    pub fn replay_dir(&self, dispatch: &dyn Fn(&Run, &str, &Value) -> Option<bool>) {
        let dir = format!("{VERIF_DIR}/replays/{}", self.id);
        let Ok(rd) = std::fs::read_dir(&dir) else { return };
        let mut files: Vec<_> = rd.filter_map(|e| e.ok()).map(|e| e.path()).filter(|p| p.extension().map(|x| x == "json").unwrap_or(false)).collect();
        files.sort();
        for p in files {
            let Ok(s) = std::fs::read_to_string(&p) else { continue };
            let Ok(v) = serde_json::from_str::<Value>(&s) else { continue };
            let sub = v.get("sub").and_then(|x| x.as_str()).unwrap_or("").to_string();
            let case = v.get("case").cloned().unwrap_or(Value::Null);
            let r = dispatch(self, &sub, &case);
            if r.is_none() {
                self.note(format!("replay file {} has unknown sub '{}'", p.display(), sub));
            }
        }
    }

    pub fn known_hit_lines(&self) -> Vec<String> {
        self.known_hits
            .lock()
            .unwrap()
            .iter()
            .map(|(sig, (n, what))| format!("KNOWN-FINDING: property={} {} [{}] (hit {} times)", self.id, what, sig, n))
            .collect()
    }

    pub fn elapsed_s(&self) -> f64 {
        self.started.elapsed().as_secs_f64()
    }

    /// Write evidence, print known findings, return the process exit code.
    pub fn finish(&self) -> i32 {
        let subs = self.subs.lock().unwrap();
        let mut evaluations = 0u64;
        let mut distinct = 0u64;
        let mut samples: Vec<Value> = Vec::new();
        let mut sub_reports = serde_json::Map::new();
        let mut rules = Vec::new();
        let mut all_exh = !subs.is_empty();
        for (name, s) in subs.iter() {
            evaluations += s.evaluations;
            distinct += s.distinct_nt.len() as u64;
            all_exh &= s.exhaustive;
            for x in s.nt_samples.iter().take(2) {
                samples.push(json!({"sub": name, "nontrivial": true, "case": x}));
            }
            for x in s.samples.iter().take(1) {
                samples.push(json!({"sub": name, "nontrivial": false, "case": x}));
            }
            if !s.rule.is_empty() {
                rules.push(format!("[{name}] {}", s.rule));
            }
            sub_reports.insert(
                name.clone(),
                json!({
                    "evaluations": s.evaluations,
                    "distinct_nontrivial": s.distinct_nt.len(),
                    "classes": s.classes,
                    "counters": s.counters,
                    "exhaustive": s.exhaustive,
                }),
            );
        }
        let known = self.known_hits.lock().unwrap();
        for (sig, (n, what)) in known.iter() {
            println!("KNOWN-FINDING: property={} {} [{}] (hit {} times; tolerated, search continued)", self.id, what, sig, n);
        }
        let viol = self.violations.lock().unwrap();
        let inconc = self.inconclusive.lock().unwrap();
        let ev = json!({
            "property_id": self.id,
            "tier": self.tier.name(),
            "seed": self.seed as i64,
            "level": self.level,
            "coverage": {
                "evaluations": evaluations,
                "distinct_nontrivial": distinct,
                "rule": rules.join(" | "),
                "samples": samples,
                "exhaustive": all_exh,
                "sub_checks": sub_reports,
                "known_findings_hit": known.iter().map(|(k,(n,w))| json!({"signature":k,"cases":n,"what":w})).collect::<Vec<_>>(),
                "notes": *self.notes.lock().unwrap(),
                "inconclusive": *inconc,
            },
            "assumptions": *self.assumptions.lock().unwrap(),
            "wall_s": self.elapsed_s(),
            "violations": viol.len(),
            "violation_signatures": viol.iter().map(|v| json!({"sub":v.sub,"signature":v.sig,"replay":v.replay,"message":trunc(&v.msg,600)})).collect::<Vec<_>>(),
        });
        let _ = std::fs::create_dir_all(format!("{VERIF_DIR}/evidence"));
        let path = format!("{VERIF_DIR}/evidence/{}.json", self.id);
        if let Err(e) = std::fs::write(&path, serde_json::to_vec_pretty(&ev).unwrap()) {
            eprintln!("cannot write evidence {path}: {e}");
            return 2;
        }
        println!(
            "{} {} seed={} evaluations={} distinct_nontrivial={} known_findings={} violations={} wall={:.1}s",
            self.id,
            self.tier.name(),
            self.seed,
            evaluations,
            distinct,
            known.len(),
            viol.len(),
            self.elapsed_s()
        );
        for (name, s) in subs.iter() {
            println!("  [{name}] n={} nt={} classes={:?}", s.evaluations, s.distinct_nt.len(), s.classes);
        }
        if !viol.is_empty() {
            1
        } else if !inconc.is_empty() {
            for i in inconc.iter() {
                println!("INCONCLUSIVE: {i}");
            }
            2
        } else {
            0
        }
    }
}

/// Attribute panics of background tasks seen since `since` to a verdict: code under test → failure with the
/// location as signature; harness code → harness error (inconclusive).
pub fn attribute_task_panics(v: &mut Verdict, id: &str, since: usize) {
    for p in panics_since(since) {
        if is_harness_panic(&p) {
            if v.harness_error.is_none() {
                v.harness_error = Some(p);
            }
            continue;
        }
        let loc = p.rsplit(" @ ").next().unwrap_or("").rsplit("/src/").next().unwrap_or("").split(':').next().unwrap_or("").to_string();
        v.fail(format!("{id}/task/panic@{loc}"), p);
        break;
    }
}

/// A panic raised by harness code (its location is a path relative to the harness crate, `src/...`; code under test
/// and dependencies are compiled with absolute paths).
pub fn is_harness_panic(p: &str) -> bool {
    p.rsplit(" @ ").next().map(|l| l.starts_with("src/")).unwrap_or(false)
}

fn run_guarded<C, F>(sub: &str, id: &str, case: &C, f: &F) -> Verdict
where
    C: Serialize,
    F: Fn(&C) -> Verdict,
{
    set_inflight(id, sub, case);
    match no_panic(|| f(case)) {
        Ok(mut v) => {
            // panics recorded from background tasks of the case
            let (harness, real): (Vec<Fail>, Vec<Fail>) = v.fails.drain(..).partition(|f| f.sig.ends_with("/task/panicked") && is_harness_panic(&f.msg));
            v.fails = real;
            if let Some(h) = harness.into_iter().next() {
                v.harness_error = Some(h.msg);
            }
            v
        }
        Err(p) if is_harness_panic(&p) => {
            let mut v = Verdict::new();
            v.harness_error = Some(p);
            v
        }
        Err(p) => {
            let mut v = Verdict::new();
            // panic signature: location only (stable), not the message payload
            let loc = p.rsplit(" @ ").next().unwrap_or("").to_string();
            let loc = loc.rsplit("/src/").next().unwrap_or(&loc).to_string();
            let loc = loc.split(':').next().unwrap_or("").to_string();
            v.fail(format!("{id}/{}/panic@{loc}", sub.trim_start_matches("replay:")), p);
            v
        }
    }
}

pub fn trunc(s: &str, n: usize) -> String {
    if s.len() <= n {
        s.to_string()
    } else {
        let mut e = n;
        while !s.is_char_boundary(e) {
            e -= 1;
        }
        format!("{}…[{} bytes]", &s[..e], s.len())
    }
}

/// Keep samples readable: long arrays/strings are cut.
pub fn truncate_json(v: Value) -> Value {
    match v {
        Value::Array(a) => {
            let n = a.len();
            let mut out: Vec<Value> = a.into_iter().take(24).map(truncate_json).collect();
            if n > 24 {
                out.push(Value::String(format!("…{} more", n - 24)));
            }
            Value::Array(out)
        }
        Value::Object(m) => Value::Object(m.into_iter().map(|(k, v)| (k, truncate_json(v))).collect()),
        Value::String(s) => Value::String(trunc(&s, 200)),
        x => x,
    }
}

/// Decode a case from fuzzer bytes: the bytes become the random stream of the proptest strategy
/// (proptest's pass-through RNG), so every strategy doubles as a structure-aware fuzz decoder.
pub fn from_value<T: DeserializeOwned>(v: &Value) -> Option<T> {
    serde_json::from_value(v.clone()).ok()
}

/// Monotone index mapping (shrinks towards 0 with the raw value).
pub fn idx(raw: u16, len: usize) -> usize {
    if len == 0 {
        0
    } else {
        ((raw as usize) * len) >> 16
    }
}

pub fn shards_for(tier: Tier) -> u32 {
    let n = std::thread::available_parallelism().map(|n| n.get()).unwrap_or(4) as u32;
    match tier {
        Tier::Quick => n.min(8),
        Tier::Thorough => n.min(16),
    }
}

/// A tokio current-thread runtime with the clock paused (virtual time).
pub fn paused_rt() -> tokio::runtime::Runtime {
    tokio::runtime::Builder::new_current_thread()
        .enable_all()
        .start_paused(true)
        .build()
        .expect("runtime")
}
