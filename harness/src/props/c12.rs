//! C12 — each peer sequence number is accepted at most once and only in order.
//! Oracle: reference model (`last` per peer) + wall-clock window with a dead band;
//! concurrency: barrier-released threads submitting the same (peer, seq).
use crate::engine::*;
use proptest::prelude::*;
use saorsa_core::monotonic_counter::{BatchUpdateRequest, MonotonicCounterSystem, SequenceValidationResult as R};
use saorsa_core::peer_record::UserId;
use serde::{Deserialize, Serialize};
use serde_json::Value;
use std::collections::HashMap;
use std::time::{Duration, SystemTime, UNIX_EPOCH};

const ID: &str = "C12";

#[derive(Debug, Clone, Serialize, Deserialize)]
pub enum SeqPick {
    Next,
    NextPlus(u64),
    AtOrBelowLast(u16),
    Zero,
    Max,
    Raw(u64),
}
#[derive(Debug, Clone, Serialize, Deserialize)]
pub enum TsPick {
    Now,
    NowPlus(i64), // seconds relative to now (may be negative)
    Zero,
    Max,
}
#[derive(Debug, Clone, Serialize, Deserialize)]
pub struct Sub {
    peer: u8,
    seq: SeqPick,
    /// true: same hash as used for every earlier submission of that number; false: fresh hash
    same_hash: bool,
    ts: TsPick,
}
#[derive(Debug, Clone, Serialize, Deserialize)]
pub enum Op {
    Validate(Sub),
    Batch(Vec<Sub>),
    SyncReload,
    Cleanup,
}
#[derive(Debug, Clone, Serialize, Deserialize)]
pub struct Case {
    peers: u8,
    ops: Vec<Op>,
}

fn seq_pick() -> impl Strategy<Value = SeqPick> {
    prop_oneof![
        6 => Just(SeqPick::Next),
        2 => (1u64..5).prop_map(SeqPick::NextPlus),
        3 => any::<u16>().prop_map(SeqPick::AtOrBelowLast),
        1 => Just(SeqPick::Zero),
        1 => Just(SeqPick::Max),
        1 => any::<u64>().prop_map(SeqPick::Raw),
    ]
}
fn ts_pick() -> impl Strategy<Value = TsPick> {
    prop_oneof![
        8 => Just(TsPick::Now),
        2 => prop_oneof![Just(50i64), Just(-50), Just(-3500), Just(70), Just(1000), Just(-3700), Just(-100_000)].prop_map(TsPick::NowPlus),
        1 => (-7200i64..7200).prop_map(TsPick::NowPlus),
        1 => Just(TsPick::Zero),
        1 => Just(TsPick::Max),
    ]
}
fn sub(peers: u8) -> impl Strategy<Value = Sub> {
    (0..peers, seq_pick(), prop::bool::weighted(0.6), ts_pick()).prop_map(|(peer, seq, same_hash, ts)| Sub { peer, seq, same_hash, ts })
}
fn case(max_len: usize) -> impl Strategy<Value = Case> {
    (1u8..=4).prop_flat_map(move |peers| {
        let op = prop_oneof![
            10 => sub(peers).prop_map(Op::Validate),
            3 => prop::collection::vec(sub(peers), 1..8).prop_map(Op::Batch),
            1 => Just(Op::SyncReload),
            1 => Just(Op::Cleanup),
        ];
        prop::collection::vec(op, 1..max_len).prop_map(move |ops| Case { peers, ops })
    })
}

fn now() -> u64 {
    SystemTime::now().duration_since(UNIX_EPOCH).map(|d| d.as_secs()).unwrap_or(0)
}

#[derive(PartialEq, Debug, Clone, Copy)]
enum Window {
    In,
    Future,
    Old,
    /// within 5 s of a window edge: the verdict depends on the wall clock, accept both
    Edge,
}
fn window(ts: &TsPick) -> (u64, Window) {
    let n = now();
    match ts {
        TsPick::Now => (n, Window::In),
        TsPick::Zero => (0, Window::Old),
        TsPick::Max => (u64::MAX, Window::Future),
        TsPick::NowPlus(d) => {
            let t = if *d >= 0 { n.saturating_add(*d as u64) } else { n.saturating_sub((-*d) as u64) };
            let w = if (*d - 60).abs() <= 5 || (*d + 3600).abs() <= 5 {
                Window::Edge
            } else if *d > 60 {
                Window::Future
            } else if *d < -3600 {
                Window::Old
            } else {
                Window::In
            };
            (t, w)
        }
    }
}

struct Model {
    last: HashMap<u8, u64>,
    hash_ctr: u64,
    seen_hash: HashMap<(u8, u64), [u8; 32]>,
}
impl Model {
    fn resolve(&mut self, s: &Sub) -> (u64, [u8; 32]) {
        let last = *self.last.get(&s.peer).unwrap_or(&0);
        let seq = match &s.seq {
            SeqPick::Next => last + 1,
            SeqPick::NextPlus(k) => last + 1 + k,
            SeqPick::AtOrBelowLast(r) => ((*r as u128 * (last as u128 + 1)) >> 16) as u64,
            SeqPick::Zero => 0,
            SeqPick::Max => u64::MAX,
            SeqPick::Raw(x) => *x,
        };
        let hash = if s.same_hash {
            *self.seen_hash.entry((s.peer, seq)).or_insert_with(|| {
                let mut h = [0u8; 32];
                h[..8].copy_from_slice(&seq.to_le_bytes());
                h[8] = s.peer;
                h
            })
        } else {
            self.hash_ctr += 1;
            let mut h = [0xEEu8; 32];
            h[..8].copy_from_slice(&self.hash_ctr.to_le_bytes());
            h
        };
        (seq, hash)
    }
}

fn uid(p: u8) -> UserId {
    let mut b = [0u8; 32];
    b[0] = p + 1;
    b[31] = 0x5a;
    UserId::from_bytes(b)
}

/// Check one result against the model; returns whether it was accepted.
fn judge(v: &mut Verdict, m: &mut Model, s: &Sub, seq: u64, w: Window, got: &R, site: &str, classes: &mut Vec<&'static str>) {
    let last = *m.last.get(&s.peer).unwrap_or(&0);
    let in_order = seq == last + 1;
    let accepted = matches!(got, R::Valid);
    // 1. never accept out of order / twice
    if accepted && !in_order {
        v.fail(format!("{ID}/{site}/accepted-out-of-order-or-twice"), format!("peer {} last={last} submitted seq={seq} → Valid", s.peer));
    }
    if accepted && (w == Window::Future || w == Window::Old) {
        v.fail(format!("{ID}/{site}/accepted-outside-timestamp-window"), format!("peer {} seq={seq} ts={:?} → Valid", s.peer, s.ts));
    }
    // 2. must accept the next number when the timestamp is inside the window
    if in_order && w == Window::In && !accepted {
        v.fail(format!("{ID}/{site}/next-number-refused"), format!("peer {} last={last} seq={seq} ts in window → {got:?}", s.peer));
    }
    // 3. classification
    match (w, got) {
        (Window::Future, R::FromFuture) | (Window::Old, R::TooOld) => {}
        (Window::Future, other) | (Window::Old, other) => {
            v.fail(format!("{ID}/{site}/wrong-class-for-timestamp"), format!("ts={:?} → {other:?}", s.ts));
        }
        (Window::In, R::Valid) => {}
        (Window::In, R::Gap { expected, received }) => {
            if !(seq > last + 1 && *expected == last + 1 && *received == seq) {
                v.fail(format!("{ID}/{site}/wrong-gap-report"), format!("last={last} seq={seq} → Gap{{{expected},{received}}}"));
            }
        }
        (Window::In, R::Replay) => {
            if seq > last {
                v.fail(format!("{ID}/{site}/wrong-class-replay"), format!("last={last} seq={seq} → Replay"));
            }
        }
        (Window::In, other) => {
            v.fail(format!("{ID}/{site}/wrong-class-in-window"), format!("last={last} seq={seq} ts={:?} → {other:?}", s.ts));
        }
        (Window::Edge, _) => {}
    }
    match got {
        R::Valid => classes.push("valid"),
        R::Replay => classes.push("replay"),
        R::Gap { .. } => classes.push("gap"),
        R::TooOld => classes.push("too_old"),
        R::FromFuture => classes.push("future"),
    }
    if accepted {
        m.last.insert(s.peer, seq);
    }
}

async fn check_counters(v: &mut Verdict, sys: &MonotonicCounterSystem, m: &Model, peers: u8, site: &str) {
    for p in 0..peers {
        let want = *m.last.get(&p).unwrap_or(&0);
        let got = sys.get_peer_counter(&uid(p)).await.map(|c| c.last_valid_sequence).unwrap_or(0);
        if got != want {
            v.fail(format!("{ID}/{site}/counter-diverged-from-model"), format!("peer {p}: last_valid_sequence={got}, model says {want}"));
        }
    }
}

fn run_case(c: &Case) -> Verdict {
    let rt = tokio::runtime::Builder::new_current_thread().enable_all().build().unwrap();
    rt.block_on(async {
        let mut v = Verdict::new();
        let dir = tempfile::tempdir().unwrap();
        let path = dir.path().join("counters.bin");
        let mut sys = MonotonicCounterSystem::new_with_sync_interval(path.clone(), Duration::from_secs(3600)).await.unwrap();
        let mut m = Model { last: HashMap::new(), hash_ctr: 0, seen_hash: HashMap::new() };
        let mut classes: Vec<&'static str> = Vec::new();
        let mut reloads = 0;
        for op in &c.ops {
            match op {
                Op::Validate(s) => {
                    // validate_sequence has no timestamp argument: it always uses "now"
                    let (seq, hash) = m.resolve(s);
                    let s2 = Sub { ts: TsPick::Now, ..s.clone() };
                    let got = sys.validate_sequence(&uid(s.peer), seq, hash).await.unwrap();
                    judge(&mut v, &mut m, &s2, seq, Window::In, &got, "validate_sequence", &mut classes);
                }
                Op::Batch(subs) => {
                    let mut resolved = Vec::new();
                    let mut reqs = Vec::new();
                    // resolve against the model as the batch is processed in order: Next after an accepted Next must be the following number
                    // so resolve lazily: we need model updates between items. Do two passes: predict acceptance using the model's rule.
                    let mut shadow = Model { last: m.last.clone(), hash_ctr: m.hash_ctr, seen_hash: m.seen_hash.clone() };
                    for s in subs {
                        let (seq, hash) = shadow.resolve(s);
                        let (ts, w) = window(&s.ts);
                        let last = *shadow.last.get(&s.peer).unwrap_or(&0);
                        // predicted acceptance only steers generation of later items in this batch
                        if seq == last + 1 && w == Window::In {
                            shadow.last.insert(s.peer, seq);
                        }
                        resolved.push((s.clone(), seq, w));
                        reqs.push(BatchUpdateRequest { user_id: uid(s.peer), sequence: seq, message_hash: hash, timestamp: ts });
                    }
                    m.hash_ctr = shadow.hash_ctr;
                    m.seen_hash = shadow.seen_hash;
                    let res = sys.batch_update(reqs).await.unwrap();
                    if res.len() != resolved.len() {
                        v.fail(format!("{ID}/batch_update/result-count"), format!("{} requests → {} results", resolved.len(), res.len()));
                    }
                    for ((s, seq, w), r) in resolved.iter().zip(res.iter()) {
                        if r.applied != matches!(r.result, R::Valid) {
                            v.fail(format!("{ID}/batch_update/applied-flag-disagrees"), format!("{:?} applied={}", r.result, r.applied));
                        }
                        if r.user_id != uid(s.peer) {
                            v.fail(format!("{ID}/batch_update/result-order"), "result user id differs from request".to_string());
                        }
                        judge(&mut v, &mut m, s, *seq, *w, &r.result, "batch_update", &mut classes);
                    }
                }
                Op::SyncReload => {
                    // first tick of the interval is immediate
                    let before = sys.get_stats().await.persistence_ops;
                    sys.start_sync_task().await.unwrap();
                    let mut ok = false;
                    for _ in 0..2000 {
                        tokio::time::sleep(Duration::from_millis(1)).await;
                        if sys.get_stats().await.persistence_ops > before {
                            ok = true;
                            break;
                        }
                    }
                    sys.stop_sync_task().await;
                    if !ok {
                        // inconclusive for this op, not a violation: skip reload
                        continue;
                    }
                    drop(sys);
                    sys = MonotonicCounterSystem::new_with_sync_interval(path.clone(), Duration::from_secs(3600)).await.unwrap();
                    reloads += 1;
                    check_counters(&mut v, &sys, &m, c.peers, "reload").await;
                }
                Op::Cleanup => {
                    sys.cleanup_old_sequences().await.unwrap();
                }
            }
            if !v.ok() {
                break;
            }
        }
        check_counters(&mut v, &sys, &m, c.peers, "final").await;
        let acc = classes.iter().filter(|c| **c == "valid").count();
        let mut rej: Vec<&str> = classes.iter().filter(|c| **c != "valid").cloned().collect();
        rej.sort();
        rej.dedup();
        let nrej = classes.len() - acc;
        v.nt(acc >= 1 && nrej >= 2 && rej.len() >= 2);
        if reloads > 0 {
            v.class("with_reload");
        }
        if c.ops.iter().any(|o| matches!(o, Op::Batch(_))) {
            v.class("with_batch");
        }
        for r in rej {
            v.class(format!("rej_{r}"));
        }
        v.count("accepted", acc as u64);
        v.count("rejected", nrej as u64);
        v
    })
}

// ---------------------------------------------------------------------------
// Concurrency: T threads submit the same (peer, seq) at once — exactly one Valid.
// ---------------------------------------------------------------------------
#[derive(Debug, Clone, Serialize, Deserialize)]
pub struct ConcCase {
    threads: u8,
    rounds: u16,
    via_batch: bool,
    distinct_hashes: bool,
}

fn run_conc(c: &ConcCase) -> Verdict {
    use std::sync::atomic::{AtomicUsize, Ordering as AO};
    let mut v = Verdict::new();
    let dir = tempfile::tempdir().unwrap();
    let path = dir.path().join("counters.bin");
    let rt = tokio::runtime::Builder::new_multi_thread().worker_threads(2).enable_all().build().unwrap();
    let sys = std::sync::Arc::new(rt.block_on(async { MonotonicCounterSystem::new_with_sync_interval(path, Duration::from_secs(3600)).await.unwrap() }));
    let peer = uid(0);
    let threads = c.threads as usize;
    let rounds = c.rounds as usize;
    // T OS threads, lined up for every round by a spinning start gate (an OS barrier wakes its waiters far too
    // unevenly to make them collide inside a critical section of a few hundred nanoseconds)
    let go = std::sync::Arc::new(AtomicUsize::new(0));
    let done = std::sync::Arc::new(AtomicUsize::new(0));
    let slots: std::sync::Arc<Vec<std::sync::Mutex<Option<R>>>> = std::sync::Arc::new((0..threads * rounds).map(|_| std::sync::Mutex::new(None)).collect());
    let mut total_valid = 0u64;
    std::thread::scope(|sc| {
        for t in 0..threads {
            let (sys, peer, go, done, slots, h) = (sys.clone(), peer.clone(), go.clone(), done.clone(), slots.clone(), rt.handle().clone());
            let (via_batch, dh) = (c.via_batch, c.distinct_hashes);
            sc.spawn(move || {
                for round in 0..rounds {
                    let seq = round as u64 + 1;
                    let mut hash = [7u8; 32];
                    if dh {
                        hash[0] = t as u8;
                    }
                    // spin (politely: the machine may be oversubscribed) until the driver opens the round; the driver
                    // always ends by storing usize::MAX, so this cannot wait for ever
                    let mut spins = 0u32;
                    while go.load(AO::Acquire) <= round {
                        spins = spins.wrapping_add(1);
                        if spins % 4096 == 0 {
                            std::thread::yield_now();
                        }
                        std::hint::spin_loop();
                    }
                    if go.load(AO::Acquire) == usize::MAX {
                        return;
                    }
                    let r = h.block_on(async {
                        if via_batch {
                            let ts = now();
                            let r = sys.batch_update(vec![BatchUpdateRequest { user_id: peer.clone(), sequence: seq, message_hash: hash, timestamp: ts }]).await.unwrap();
                            r[0].result.clone()
                        } else {
                            sys.validate_sequence(&peer, seq, hash).await.unwrap()
                        }
                    });
                    *slots[round * threads + t].lock().unwrap() = Some(r);
                    done.fetch_add(1, AO::AcqRel);
                }
            });
        }
        for round in 0..rounds {
            let seq = round as u64 + 1;
            go.store(round + 1, AO::Release);
            let mut spins = 0u32;
            while done.load(AO::Acquire) < threads * (round + 1) {
                spins = spins.wrapping_add(1);
                if spins % 4096 == 0 {
                    std::thread::yield_now();
                }
                std::hint::spin_loop();
            }
            let results: Vec<R> = (0..threads).map(|t| slots[round * threads + t].lock().unwrap().clone().unwrap_or(R::Replay)).collect();
            let valid = results.iter().filter(|r| matches!(r, R::Valid)).count();
            total_valid += valid as u64;
            if valid != 1 {
                v.fail(format!("{ID}/concurrent/not-exactly-one-accepted"), format!("round {round}: {} of {} concurrent submissions of seq {seq} accepted: {results:?}", valid, c.threads));
                go.store(usize::MAX, AO::Release);
                break;
            }
            if results.iter().any(|r| !matches!(r, R::Valid | R::Replay)) {
                v.fail(format!("{ID}/concurrent/loser-not-replay"), format!("round {round}: {results:?}"));
                go.store(usize::MAX, AO::Release);
                break;
            }
        }
        go.store(usize::MAX, AO::Release);
    });
    // the counter must sit exactly on the last number, and the history must hold each number once
    if v.ok() {
        let last = rt.block_on(async { sys.get_peer_counter(&peer).await });
        if let Some(pc) = last {
            if pc.last_valid_sequence != rounds as u64 {
                v.fail(format!("{ID}/concurrent/counter-not-on-the-last-accepted-number"), format!("after {rounds} rounds last_valid_sequence={}", pc.last_valid_sequence));
            }
        }
    }
    v.nt(c.threads >= 2 && total_valid >= 2);
    v.class(format!("threads_{}", c.threads));
    v.count("rounds", c.rounds as u64);
    v
}

// ---------------------------------------------------------------------------
// Aged history: numbers accepted with timestamps just inside the one-hour window fall out of the history a few
// seconds later; housekeeping (cleanup_old_sequences) must not make the store forget that it accepted them.
// ---------------------------------------------------------------------------
#[derive(Debug, Clone, Serialize, Deserialize)]
pub struct AgedCase {
    n: u8,
    control: u8,
    same_hash: bool,
    via_batch: bool,
}
fn run_aged(c: &AgedCase) -> Verdict {
    let rt = tokio::runtime::Builder::new_current_thread().enable_all().build().unwrap();
    rt.block_on(async {
        let mut v = Verdict::new();
        let dir = tempfile::tempdir().unwrap();
        let sys = MonotonicCounterSystem::new_with_sync_interval(dir.path().join("counters.bin"), Duration::from_secs(3600)).await.unwrap();
        let (p, q) = (uid(0), uid(1));
        let n = 1 + (c.n % 6) as u64;
        let m = 1 + (c.control % 4) as u64;
        // 7 s inside the window (the dead band around the edge is 5 s)
        let old_ts = now().saturating_sub(3600 - 7);
        for seq in 1..=n {
            let r = sys.batch_update(vec![BatchUpdateRequest { user_id: p.clone(), sequence: seq, message_hash: [seq as u8; 32], timestamp: old_ts }]).await.unwrap();
            if !matches!(r[0].result, R::Valid) {
                // machine too slow (the timestamp slid out of the window before it was handled): not judged
                v.class("scene_not_set(not judged)");
                return v;
            }
        }
        for seq in 1..=m {
            let _ = sys.validate_sequence(&q, seq, [seq as u8; 32]).await.unwrap();
        }
        // the old entries are now older than an hour
        tokio::time::sleep(Duration::from_millis(8500)).await;
        sys.cleanup_old_sequences().await.unwrap();
        for (peer, upto, who) in [(&p, n, "aged peer"), (&q, m, "control peer")] {
            for seq in 1..=upto {
                let h = if c.same_hash { [seq as u8; 32] } else { [0xa0 ^ seq as u8; 32] };
                let r = if c.via_batch {
                    sys.batch_update(vec![BatchUpdateRequest { user_id: peer.clone(), sequence: seq, message_hash: h, timestamp: now() }]).await.unwrap()[0].result.clone()
                } else {
                    sys.validate_sequence(peer, seq, h).await.unwrap()
                };
                if matches!(r, R::Valid) {
                    v.fail(format!("{ID}/cleanup_old_sequences/accepted-number-accepted-again-after-cleanup"), format!("{who}: number {seq} of 1..={upto} was accepted again after its history entry aged out and cleanup ran"));
                }
            }
            let next = sys.validate_sequence(peer, upto + 1, [0x77; 32]).await.unwrap();
            if !matches!(next, R::Valid) {
                v.fail(format!("{ID}/cleanup_old_sequences/next-number-refused-after-cleanup"), format!("{who}: number {} → {next:?}", upto + 1));
            }
            let again = sys.validate_sequence(peer, upto + 1, [0x78; 32]).await.unwrap();
            if matches!(again, R::Valid) {
                v.fail(format!("{ID}/cleanup_old_sequences/accepted-number-accepted-again-after-cleanup"), format!("{who}: number {} accepted twice", upto + 1));
            }
        }
        v.nt(true);
        v
    })
}

pub fn run(run: &Run) {
    run.assume("wall-clock window edges (±60 s, −3600 s) are given a 5 s dead band in which any classification is accepted");
    run.assume("reload is reached through the public start_sync_task (first interval tick is immediate) and observed via get_stats().persistence_ops");
    run.set_rule("history", "history of validate/batch/sync-reload/cleanup over 1..4 peers; non-trivial = ≥1 accepted and ≥2 rejected submissions of ≥2 different rejection classes; distinct by hash of the operation list");
    run.set_rule("concurrent", "T OS threads lined up by a spinning start gate submit the same (peer, seq) - number 1 to a fresh peer, every later number to a known peer - through validate_sequence or batch_update, many rounds; non-trivial = T≥2 and ≥2 rounds; distinct by (T, rounds, path, hashes)");
    let (len, n) = match run.tier {
        Tier::Quick => (60, 6000),
        Tier::Thorough => (400, 30000),
    };
    run.prop("history", n, shards_for(run.tier), case(len), run_case);
    // long single history (thorough): sequence_history eviction at 1000 entries
    if run.tier == Tier::Thorough {
        run.prop("history", 40, 8, case(3000), run_case);
    }
    let conc = (2u8..=16, run.tier.pick(20u16..60, 100u16..400), any::<bool>(), any::<bool>()).prop_map(|(threads, rounds, via_batch, distinct_hashes)| ConcCase { threads, rounds, via_batch, distinct_hashes });
    run.prop("concurrent", run.tier.pick(144, 800), 1, conc, run_conc);
    run.set_rule("aged", "1..6 numbers accepted (batch path) with timestamps 7 s inside the one-hour window, a control peer with fresh entries; 8.5 s later the old entries are older than an hour and cleanup_old_sequences runs: every accepted number must still be refused (same or different hash, validate or batch path), the next number accepted exactly once; all non-trivial");
    let aged = (any::<u8>(), any::<u8>(), any::<bool>(), any::<bool>()).prop_map(|(n, control, same_hash, via_batch)| AgedCase { n, control, same_hash, via_batch });
    run.prop("aged", run.tier.pick(8, 64), shards_for(run.tier), aged, run_aged);
}

pub fn replay(run: &Run, sub: &str, case: &Value) -> Option<bool> {
    match sub {
        "history" => Some(run.eval_case("replay/history", &from_value::<Case>(case)?, &run_case)),
        "concurrent" => Some(run.eval_case("replay/concurrent", &from_value::<ConcCase>(case)?, &run_conc)),
        "aged" => Some(run.eval_case("replay/aged", &from_value::<AgedCase>(case)?, &run_aged)),
        _ => None,
    }
}
