//! C06 — acknowledged state survives a crash at any point; recovery is a prefix.
//! Level: fault_enumeration. Generated histories × crash images taken at every instrumented step
//! (+ byte truncations of the record being written); oracle = prefix-of-history reference model.
use crate::engine::*;
use proptest::prelude::*;
use saorsa_core::persistent_state::{FlushStrategy, PersistentStateManager, RecoveryMode, SnapshotHeader, StateConfig, WalEntry};
use serde::{Deserialize, Serialize};
use serde_json::Value;
use std::cell::RefCell;
use std::collections::HashMap;
use std::path::{Path, PathBuf};
use std::rc::Rc;
use std::time::Duration;

const ID: &str = "C06";
pub type Val = (u32, Vec<u8>);
pub type State = HashMap<String, Val>;

#[derive(Debug, Clone, Serialize, Deserialize)]
pub enum Op {
    Upsert(u8, u8),
    Delete(u8),
    /// changes (key, Some(value seed) | None = delete); `fail` = the closure returns Err after applying them
    Batch(Vec<(u8, Option<u8>)>, bool),
    Checkpoint,
    CleanReopen,
    /// crash: continue from one of the images recorded since the last reopen
    CrashReopen(u16),
}
#[derive(Debug, Clone, Serialize, Deserialize)]
pub struct Case {
    pub flush: u8,
    /// 0 = no override (rotation after 1000 entries)
    pub rotation: u8,
    pub ops: Vec<Op>,
    /// which operations (by index, mapped monotonically) get every byte-truncation of their record
    pub truncate_ops: Vec<u16>,
    /// record crash images (off for the very long natural-rotation histories)
    #[serde(default = "yes")]
    pub record: bool,
}
fn yes() -> bool {
    true
}

pub fn key(k: u8) -> String {
    format!("key-{}", k % 6)
}
pub fn val(s: u8) -> Val {
    (s as u32 * 7 + 1, vec![s; (s % 23) as usize])
}
pub fn flush_of(f: u8) -> FlushStrategy {
    match f % 4 {
        0 => FlushStrategy::Always,
        1 => FlushStrategy::Periodic(Duration::from_millis(5)),
        2 => FlushStrategy::BufferSize(3),
        _ => FlushStrategy::Adaptive,
    }
}
pub fn config(dir: &Path, flush: u8) -> StateConfig {
    StateConfig { state_dir: dir.to_path_buf(), flush_strategy: flush_of(flush), checkpoint_interval: Duration::from_secs(3600), enable_compression: false, recovery_mode: RecoveryMode::Standard, max_state_size: 1 << 30 }
}
pub fn copy_dir(from: &Path, to: &Path) {
    std::fs::create_dir_all(to).unwrap();
    if let Ok(rd) = std::fs::read_dir(from) {
        for e in rd.flatten() {
            if e.path().is_file() {
                let _ = std::fs::copy(e.path(), to.join(e.file_name()));
            }
        }
    }
}

/// All (file name, transaction id) pairs found in the WAL files of a directory, in file-name order.
pub fn wal_entries(dir: &Path) -> Vec<(String, WalEntry)> {
    let mut out = Vec::new();
    let mut files: Vec<PathBuf> = std::fs::read_dir(dir).map(|rd| rd.flatten().map(|e| e.path()).filter(|p| p.extension().map(|x| x == "wal").unwrap_or(false)).collect()).unwrap_or_default();
    files.sort();
    for f in files {
        let Ok(b) = std::fs::read(&f) else { continue };
        let mut pos = 0usize;
        while pos + 4 <= b.len() {
            let n = u32::from_le_bytes(b[pos..pos + 4].try_into().unwrap()) as usize;
            if pos + 4 + n > b.len() {
                break;
            }
            if let Ok(e) = postcard::from_bytes::<WalEntry>(&b[pos + 4..pos + 4 + n]) {
                out.push((f.file_name().unwrap().to_string_lossy().to_string(), e));
            }
            pos += 4 + n;
        }
    }
    out
}
pub fn max_txid(dir: &Path) -> u64 {
    let mut m = wal_entries(dir).iter().map(|(_, e)| e.transaction_id).max().unwrap_or(0);
    if let Ok(rd) = std::fs::read_dir(dir) {
        for e in rd.flatten() {
            if e.path().extension().map(|x| x == "snap").unwrap_or(false) {
                if let Ok(b) = std::fs::read(e.path()) {
                    if b.len() > 4 {
                        let n = u32::from_le_bytes(b[..4].try_into().unwrap()) as usize;
                        if 4 + n <= b.len() {
                            if let Ok(h) = postcard::from_bytes::<SnapshotHeader>(&b[4..4 + n]) {
                                m = m.max(h.last_transaction_id);
                            }
                        }
                    }
                }
            }
        }
    }
    m
}

#[derive(Clone)]
struct Image {
    tag: String,
    dir: PathBuf,
    issued: usize,
    acked: usize,
    in_batch: bool,
}
struct Recorder {
    src: PathBuf,
    root: PathBuf,
    images: Vec<Image>,
    issued: usize,
    acked: usize,
    in_batch: bool,
    truncate_this_op: bool,
    before_len: u64,
    n: usize,
    inside_op_images: usize,
}
impl Recorder {
    fn snap(&mut self, tag: &str) -> PathBuf {
        self.n += 1;
        let d = self.root.join(format!("img{}", self.n));
        copy_dir(&self.src, &d);
        self.images.push(Image { tag: tag.to_string(), dir: d.clone(), issued: self.issued, acked: self.acked, in_batch: self.in_batch });
        if self.issued != self.acked {
            self.inside_op_images += 1;
        }
        d
    }
    fn hook(&mut self, tag: &'static str) {
        let wal = self.src.join("state.wal");
        if tag == "wal:before-record" {
            self.before_len = std::fs::metadata(&wal).map(|m| m.len()).unwrap_or(0);
        }
        let d = self.snap(tag);
        if tag == "wal:record-written" && self.truncate_this_op {
            if let Ok(full) = std::fs::read(d.join("state.wal")) {
                let start = self.before_len as usize;
                for cut in (start + 1)..full.len() {
                    self.n += 1;
                    let d2 = self.root.join(format!("img{}", self.n));
                    copy_dir(&d, &d2);
                    let _ = std::fs::write(d2.join("state.wal"), &full[..cut]);
                    self.images.push(Image { tag: format!("wal:record-truncated@{}", cut - start), dir: d2, issued: self.issued, acked: self.acked, in_batch: self.in_batch });
                    self.inside_op_images += 1;
                }
            }
        }
    }
}

async fn open(dir: &Path, flush: u8) -> Result<PersistentStateManager<Val>, String> {
    PersistentStateManager::<Val>::new(config(dir, flush)).await.map_err(|e| e.to_string())
}

/// Reopen a copy of an image and return what was recovered (and the max transaction id seen before reopening).
async fn recover_image(img: &Path, scratch: &Path, flush: u8) -> Result<(State, PathBuf), String> {
    let _ = std::fs::remove_dir_all(scratch);
    copy_dir(img, scratch);
    let m = open(scratch, flush).await?;
    let st = m.get_all().map_err(|e| e.to_string())?;
    drop(m);
    Ok((st, scratch.to_path_buf()))
}

fn show(s: &State) -> String {
    let mut k: Vec<_> = s.iter().map(|(k, v)| format!("{k}={}", v.0)).collect();
    k.sort();
    format!("{{{}}}", k.join(","))
}

fn run_case(c: &Case) -> Verdict {
    let rt = tokio::runtime::Builder::new_current_thread().enable_all().build().unwrap();
    let out = rt.block_on(async {
        let mut v = Verdict::new();
        let work = tempfile::tempdir().unwrap();
        let dir = work.path().join("state");
        let imgroot = work.path().join("images");
        let scratch = work.path().join("scratch");
        std::fs::create_dir_all(&dir).unwrap();
        saorsa_core::verif_hooks::set_rotation_threshold(if c.rotation == 0 { None } else { Some(4 + (c.rotation % 13) as usize) });
        let rec = Rc::new(RefCell::new(Recorder { src: dir.clone(), root: imgroot.clone(), images: Vec::new(), issued: 0, acked: 0, in_batch: false, truncate_this_op: false, before_len: 0, n: 0, inside_op_images: 0 }));
        if c.record {
            let r = rec.clone();
            saorsa_core::verif_hooks::set_crash_hook(Some(Box::new(move |tag| r.borrow_mut().hook(tag))));
        }
        let always = c.flush % 4 == 0;
        let mut mgr = match open(&dir, c.flush).await {
            Ok(m) => m,
            Err(e) => {
                v.fail(format!("{ID}/new/cannot-open-empty-directory"), e);
                return v;
            }
        };
        // states[i] = state after i operations of the current epoch
        let mut states: Vec<State> = vec![State::new()];
        let mut total_images = 0usize;
        let mut rotated_or_checkpointed = false;
        let mut inside = 0usize;
        let trunc: Vec<usize> = c.truncate_ops.iter().map(|t| idx(*t, c.ops.len().max(1))).collect();
        let mut epoch_images_checked = 0usize;

        // verify every image of the current epoch against the model
        macro_rules! check_images {
            () => {{
                let imgs = rec.borrow().images.clone();
                for im in &imgs {
                    match recover_image(&im.dir, &scratch, c.flush).await {
                        Err(e) => {
                            v.fail(format!("{ID}/recover/reopen-of-crash-image-failed"), format!("image '{}': {e}", im.tag));
                        }
                        Ok((got, _)) => {
                            let lo = if always { im.acked } else { 0 };
                            let hi = im.issued.min(states.len() - 1);
                            let ok = (lo..=hi).any(|j| states[j] == got);
                            if !ok {
                                let stage = im.tag.split('@').next().unwrap_or("").to_string();
                                let what = if im.in_batch && (0..=hi).all(|j| states[j] != got) { "partial-batch-visible-after-crash".to_string() } else if (0..=hi).any(|j| states[j] == got) { format!("acknowledged-operation-lost/{stage}") } else { format!("recovered-state-is-not-a-prefix/{stage}") };
                                let site = if im.in_batch { "batch_update" } else { "recover" };
                                let mut files: Vec<String> = std::fs::read_dir(&im.dir).map(|rd| rd.flatten().map(|e| format!("{}({})", e.file_name().to_string_lossy(), e.metadata().map(|m| m.len()).unwrap_or(0))).collect()).unwrap_or_default();
                                files.sort();
                                let log: Vec<String> = wal_entries(&im.dir).iter().map(|(f, e)| format!("{}#{}:{:?}:{}{}", &f[..f.len().min(14)], e.transaction_id, e.transaction_type, e.key, if e.value.is_some() { "=v" } else { "" })).collect();
                                v.fail(format!("{ID}/{site}/{what}"), format!("image '{}' (issued {}, acknowledged {}): recovered {} ; allowed {} ; files {:?} ; log {:?}", im.tag, im.issued, im.acked, show(&got), (lo..=hi).map(|j| show(&states[j])).collect::<Vec<_>>().join(" | "), files, log));
                            }
                        }
                    }
                    epoch_images_checked += 1;
                    if v.fails.len() >= 3 {
                        break;
                    }
                }
            }};
        }

        for (i, op) in c.ops.iter().enumerate() {
            {
                let mut r = rec.borrow_mut();
                r.truncate_this_op = trunc.contains(&i);
                r.in_batch = matches!(op, Op::Batch(..));
            }
            let cur = states.last().cloned().unwrap_or_default();
            match op {
                Op::Upsert(k, s) => {
                    rec.borrow_mut().issued += 1;
                    let r = mgr.upsert(key(*k), val(*s)).await;
                    let mut n = cur.clone();
                    n.insert(key(*k), val(*s));
                    states.push(n);
                    rec.borrow_mut().acked += 1;
                    if let Err(e) = r {
                        v.fail(format!("{ID}/upsert/failed"), e.to_string());
                    }
                }
                Op::Delete(k) => {
                    rec.borrow_mut().issued += 1;
                    let r = mgr.delete(&key(*k)).await;
                    let mut n = cur.clone();
                    n.remove(&key(*k));
                    states.push(n);
                    rec.borrow_mut().acked += 1;
                    if let Err(e) = r {
                        v.fail(format!("{ID}/delete/failed"), e.to_string());
                    }
                }
                Op::Batch(changes, fail) => {
                    rec.borrow_mut().issued += 1;
                    let ch = changes.clone();
                    let fl = *fail;
                    let r = mgr
                        .batch_update(move |st| {
                            for (k, s) in &ch {
                                match s {
                                    Some(s) => {
                                        st.insert(key(*k), val(*s));
                                    }
                                    None => {
                                        st.remove(&key(*k));
                                    }
                                }
                            }
                            if fl {
                                Err(saorsa_core::P2PError::Internal("generated failure".into()))
                            } else {
                                Ok(())
                            }
                        })
                        .await;
                    let mut n = cur.clone();
                    if !*fail {
                        for (k, s) in changes {
                            match s {
                                Some(s) => {
                                    n.insert(key(*k), val(*s));
                                }
                                None => {
                                    n.remove(&key(*k));
                                }
                            }
                        }
                    }
                    states.push(n);
                    rec.borrow_mut().acked += 1;
                    if r.is_ok() == *fail {
                        v.fail(format!("{ID}/batch_update/result-differs-from-closure-result"), format!("closure fail={fail} → {:?}", r.is_ok()));
                    }
                }
                Op::Checkpoint => {
                    rec.borrow_mut().issued += 1;
                    let r = mgr.checkpoint().await;
                    states.push(cur.clone());
                    rec.borrow_mut().acked += 1;
                    rotated_or_checkpointed = true;
                    if let Err(e) = r {
                        v.fail(format!("{ID}/checkpoint/failed"), e.to_string());
                    }
                }
                Op::CleanReopen | Op::CrashReopen(_) => {
                    // live view must equal the model before we leave this epoch
                    let live = mgr.get_all().unwrap_or_default();
                    if live != cur {
                        v.fail(format!("{ID}/get_all/live-state-differs-from-model"), format!("{} vs {}", show(&live), show(&cur)));
                    }
                    check_images!();
                    let before_max = max_txid(&dir);
                    let crash_from = match op {
                        Op::CrashReopen(p) => {
                            let imgs = rec.borrow().images.clone();
                            if imgs.is_empty() {
                                None
                            } else {
                                Some(imgs[idx(*p, imgs.len())].clone())
                            }
                        }
                        _ => None,
                    };
                    drop(mgr);
                    let mut expect_exact: Option<State> = Some(cur.clone());
                    if let Some(im) = &crash_from {
                        // the directory becomes that crash image
                        let _ = std::fs::remove_dir_all(&dir);
                        copy_dir(&im.dir, &dir);
                        expect_exact = None;
                    }
                    total_images += rec.borrow().images.len();
                    inside += rec.borrow().inside_op_images;
                    {
                        let mut r = rec.borrow_mut();
                        r.images.clear();
                        r.inside_op_images = 0;
                        r.issued = 0;
                        r.acked = 0;
                    }
                    let _ = std::fs::remove_dir_all(&imgroot);
                    let img_max = max_txid(&dir);
                    mgr = match open(&dir, c.flush).await {
                        Ok(m) => m,
                        Err(e) => {
                            v.fail(format!("{ID}/new/reopen-failed"), e);
                            return v;
                        }
                    };
                    let got = mgr.get_all().unwrap_or_default();
                    if let Some(want) = expect_exact {
                        if got != want {
                            v.fail(format!("{ID}/recover/clean-restart-does-not-reproduce-the-state"), format!("recovered {} expected {} ; stats {:?}", show(&got), show(&want), mgr.recovery_stats().map(|s| (s.entries_recovered, s.entries_failed, s.snapshots_processed, s.wal_files_processed, s.corruption_events.len()))));
                        }
                        let _ = before_max;
                    }
                    // transaction counter must not move backwards: the next record carries a larger id
                    // than anything found in the directory that was reopened
                    let probe_key = "txid-probe".to_string();
                    let had = got.get(&probe_key).cloned();
                    if mgr.upsert(probe_key.clone(), (0, vec![])).await.is_ok() {
                        let newest = wal_entries(&dir).into_iter().filter(|(_, e)| e.key == probe_key).map(|(_, e)| e.transaction_id).max().unwrap_or(0);
                        if newest <= img_max && img_max > 0 {
                            v.fail(format!("{ID}/recover/transaction-counter-moved-backwards"), format!("directory held transaction ids up to {img_max}; first id after reopen is {newest}"));
                        }
                        // undo the probe so the model stays simple
                        match had {
                            Some(x) => {
                                let _ = mgr.upsert(probe_key.clone(), x).await;
                            }
                            None => {
                                let _ = mgr.delete(&probe_key).await;
                            }
                        }
                    }
                    {
                        let mut r = rec.borrow_mut();
                        r.images.clear();
                        r.inside_op_images = 0;
                    }
                    let _ = std::fs::remove_dir_all(&imgroot);
                    let now = mgr.get_all().unwrap_or_default();
                    states = vec![now];
                }
            }
            if wal_entries(&dir).iter().any(|(f, _)| f != "state.wal") {
                rotated_or_checkpointed = true;
            }
            if !v.ok() {
                break;
            }
        }
        if v.ok() {
            check_images!();
            // final clean restart
            let cur = states.last().cloned().unwrap_or_default();
            drop(mgr);
            match open(&dir, c.flush).await {
                Ok(m) => {
                    let got = m.get_all().unwrap_or_default();
                    if got != cur {
                        v.fail(format!("{ID}/recover/clean-restart-does-not-reproduce-the-state"), format!("recovered {} expected {} ; stats {:?}", show(&got), show(&cur), m.recovery_stats().map(|s| (s.entries_recovered, s.entries_failed, s.snapshots_processed, s.wal_files_processed, s.corruption_events.len()))));
                    }
                }
                Err(e) => v.fail(format!("{ID}/new/reopen-failed"), e),
            }
        }
        total_images += rec.borrow().images.len();
        inside += rec.borrow().inside_op_images;
        v.count("crash_images", total_images as u64);
        v.count("images_inside_an_operation", inside as u64);
        v.count("images_checked", epoch_images_checked as u64);
        v.nt(inside > 0 || rotated_or_checkpointed);
        if rotated_or_checkpointed {
            v.class("rotated_or_checkpointed");
        }
        v.class(format!("flush_{}", ["always", "periodic", "buffer", "adaptive"][(c.flush % 4) as usize]));
        if c.ops.iter().any(|o| matches!(o, Op::CrashReopen(_))) {
            v.class("nested_crash_recover");
        }
        v
    });
    saorsa_core::verif_hooks::set_crash_hook(None);
    saorsa_core::verif_hooks::set_rotation_threshold(None);
    out
}

pub fn op() -> impl Strategy<Value = Op> {
    prop_oneof![
        10 => (0u8..6, any::<u8>()).prop_map(|(k, s)| Op::Upsert(k, s)),
        3 => (0u8..6).prop_map(Op::Delete),
        2 => (prop::collection::vec((0u8..6, prop::option::weighted(0.8, any::<u8>())), 1..5), prop::bool::weighted(0.2)).prop_map(|(c, f)| Op::Batch(c, f)),
        2 => Just(Op::Checkpoint),
        1 => Just(Op::CleanReopen),
        2 => any::<u16>().prop_map(Op::CrashReopen),
    ]
}
pub fn case(max_len: usize) -> impl Strategy<Value = Case> {
    (prop_oneof![3 => Just(0u8), 1 => 1u8..4], prop_oneof![4 => 1u8..=13, 1 => Just(0u8)], prop::collection::vec(op(), 1..max_len), prop::collection::vec(any::<u16>(), 0..3)).prop_map(|(flush, rotation, ops, truncate_ops)| Case { flush, rotation, ops, truncate_ops, record: true })
}

// ---- byte decoder for the coverage-guided stage: same shapes and ranges as the strategies above ----------
pub fn decode(data: &[u8]) -> Option<Case> {
    use arbitrary::Unstructured;
    let mut u = Unstructured::new(data);
    let r: arbitrary::Result<Case> = (|| {
        let flush = if u.ratio(3u8, 4u8)? { 0 } else { u.int_in_range(1u8..=3)? };
        let rotation = if u.ratio(4u8, 5u8)? { u.int_in_range(1u8..=13)? } else { 0 };
        let nt = u.int_in_range(0usize..=2)?;
        let mut truncate_ops = Vec::new();
        for _ in 0..nt {
            truncate_ops.push(u.arbitrary()?);
        }
        let n = u.int_in_range(1usize..=23)?;
        let mut ops = Vec::new();
        for _ in 0..n {
            ops.push(match u.int_in_range(0u8..=19)? {
                0..=9 => Op::Upsert(u.int_in_range(0u8..=5)?, u.arbitrary()?),
                10..=12 => Op::Delete(u.int_in_range(0u8..=5)?),
                13 | 14 => {
                    let m = u.int_in_range(1usize..=4)?;
                    let mut ch = Vec::new();
                    for _ in 0..m {
                        ch.push((u.int_in_range(0u8..=5)?, if u.ratio(4u8, 5u8)? { Some(u.arbitrary()?) } else { None }));
                    }
                    Op::Batch(ch, u.ratio(1u8, 5u8)?)
                }
                15 | 16 => Op::Checkpoint,
                17 => Op::CleanReopen,
                _ => Op::CrashReopen(u.arbitrary()?),
            });
        }
        Ok(Case { flush, rotation, ops, truncate_ops, record: true })
    })();
    r.ok()
}

pub fn check(c: &Case) -> Verdict {
    run_case(c)
}

pub fn run(run: &Run) {
    run.assume("a crash is the death of the process: everything already handed to the kernel by write() survives; power loss (lost page cache) is outside the property");
    run.assume("crash points are the instrumented steps (before/inside/after a record write, rotation, checkpoint steps, each deletion) plus every byte-truncation of the record being written for sampled operations");
    run.assume("a batch is one operation: a crash image must show all or none of it");
    run.set_rule("history", "history of upsert/delete/batch(may fail)/checkpoint/clean-reopen/crash-reopen (continue from any recorded image, so crash-recover cycles nest) over 6 keys, rotation threshold 4..16 via hook (or 1000 natural), 4 flush policies; every crash image is reopened and compared with the states S_acked..S_issued of the reference model; non-trivial = an image taken inside an operation, or a rotation/checkpoint happened; evaluations = histories, counters report images");
    let sh = shards_for(run.tier);
    run.max_shrink.store(300, std::sync::atomic::Ordering::Relaxed);
    run.prop("history", run.tier.pick(80, 3000), sh, case(run.tier.pick(30, 120)), run_case);
    if run.tier == Tier::Thorough {
        // natural rotation at 1000 entries
        let long = prop::collection::vec(prop_oneof![12 => (0u8..6, any::<u8>()).prop_map(|(k, s)| Op::Upsert(k, s)), 2 => (0u8..6).prop_map(Op::Delete), 1 => Just(Op::Checkpoint)], 2100..2600).prop_map(|mut ops| {
            ops.push(Op::CleanReopen);
            Case { flush: 0, rotation: 0, ops, truncate_ops: vec![], record: false }
        });
        run.prop("history", 4, 4, long, run_case);
    }
}

pub fn replay(run: &Run, sub: &str, case: &Value) -> Option<bool> {
    match sub {
        "history" => Some(run.eval_case("replay/history", &from_value::<Case>(case)?, &run_case)),
        _ => None,
    }
}
