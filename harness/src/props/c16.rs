//! C16 — failing or distrusted peers are sidelined exactly as the stated policy says.
//! (a) EvictionManager vs reference model; (b) routing removal (evicted/failed peers vanish from
//! answers until re-added); (c) selector ranking predicate + storage floor; (d) selection disabled ⇒ closest in order.
use crate::engine::*;
use proptest::prelude::*;
use saorsa_core::adaptive::{NodeId as AdaptiveNodeId, TrustProvider};
use saorsa_core::dht::core_engine::{DhtCoreEngine, DhtKey, NodeCapacity, NodeId, NodeInfo};
use saorsa_core::dht::routing_maintenance::{EvictionManager, EvictionReason, MaintenanceConfig};
use saorsa_core::dht::trust_peer_selector::{TrustAwarePeerSelector, TrustSelectionConfig};
use serde::{Deserialize, Serialize};
use serde_json::Value;
use std::collections::{HashMap, HashSet};
use std::sync::Arc;
use std::time::SystemTime;

const ID: &str = "C16";

// ---------------- (a) eviction manager ----------------
#[derive(Debug, Clone, Serialize, Deserialize)]
pub enum TrustVal {
    Below,
    At,
    Above,
    Zero,
    One,
    NaN,
    Neg,
    Big,
    Val(f64),
}
#[derive(Debug, Clone, Serialize, Deserialize)]
pub enum EvOp {
    Success(u8),
    Failure(u8),
    Trust(u8, TrustVal),
    Mark(u8, u8),
    Forget(u8),
}
#[derive(Debug, Clone, Serialize, Deserialize)]
pub struct EvCase {
    max_failures: u32,
    threshold_milli: u16,
    ops: Vec<EvOp>,
}
fn pid(i: u8) -> NodeId {
    let mut b = [0u8; 32];
    b[0] = i;
    b[31] = 0x16;
    NodeId::from_bytes(b)
}
fn reason(i: u8) -> EvictionReason {
    match i % 4 {
        0 => EvictionReason::CloseGroupRejection,
        1 => EvictionReason::Stale,
        2 => EvictionReason::LowTrust("explicit".into()),
        _ => EvictionReason::ConsecutiveFailures(99),
    }
}
#[derive(Default, Clone)]
struct PeerModel {
    tracked: bool,
    consecutive: u32,
    trust: Option<f64>,
    marked: Option<EvictionReason>,
}
fn run_eviction(c: &EvCase) -> Verdict {
    let mut v = Verdict::new();
    let thr = c.threshold_milli as f64 / 1000.0;
    let cfg = MaintenanceConfig { max_consecutive_failures: c.max_failures, min_trust_threshold: thr, ..Default::default() };
    let mut mgr = EvictionManager::new(cfg);
    let mut model: HashMap<u8, PeerModel> = HashMap::new();
    let mut entered = HashSet::new();
    let mut left = false;
    for (step, op) in c.ops.iter().enumerate() {
        match op {
            EvOp::Success(p) => {
                mgr.record_success(&pid(*p));
                let m = model.entry(*p).or_default();
                m.tracked = true;
                m.consecutive = 0;
            }
            EvOp::Failure(p) => {
                mgr.record_failure(&pid(*p));
                let m = model.entry(*p).or_default();
                m.tracked = true;
                m.consecutive += 1;
            }
            EvOp::Trust(p, t) => {
                let val = match t {
                    TrustVal::Below => thr - 0.01,
                    TrustVal::At => thr,
                    TrustVal::Above => thr + 0.01,
                    TrustVal::Zero => 0.0,
                    TrustVal::One => 1.0,
                    TrustVal::NaN => f64::NAN,
                    TrustVal::Neg => -1.0,
                    TrustVal::Big => 7.0,
                    TrustVal::Val(x) => *x,
                };
                mgr.update_trust_score(&pid(*p), val);
                model.entry(*p).or_default().trust = Some(val);
            }
            EvOp::Mark(p, r) => {
                mgr.record_eviction(&pid(*p), reason(*r));
                model.entry(*p).or_default().marked = Some(reason(*r));
            }
            EvOp::Forget(p) => {
                mgr.remove_node(&pid(*p));
                model.remove(p);
            }
        }
        // compare candidate sets after every step
        let got = mgr.get_eviction_candidates();
        let mut got_map: HashMap<NodeId, EvictionReason> = HashMap::new();
        for (id, r) in &got {
            if got_map.insert(id.clone(), r.clone()).is_some() {
                v.fail(format!("{ID}/get_eviction_candidates/peer-listed-twice"), format!("step {step}: {id} appears more than once"));
            }
        }
        let mut now_cand = HashSet::new();
        for (p, m) in &model {
            let by_fail = m.tracked && m.consecutive >= c.max_failures;
            let by_trust = m.trust.map(|t| t < thr).unwrap_or(false);
            let want = if let Some(r) = &m.marked {
                Some(r.clone())
            } else if by_fail {
                Some(EvictionReason::ConsecutiveFailures(m.consecutive))
            } else if by_trust {
                Some(EvictionReason::LowTrust(format!("{:.4}", m.trust.unwrap_or(0.0))))
            } else {
                None
            };
            let g = got_map.get(&pid(*p));
            match (&want, g) {
                (Some(w), Some(g)) => {
                    now_cand.insert(*p);
                    let same_kind = std::mem::discriminant(w) == std::mem::discriminant(g);
                    if !same_kind {
                        v.fail(format!("{ID}/get_eviction_candidates/wrong-reason-precedence"), format!("step {step}: peer {p} expected {w:?} got {g:?}"));
                    } else if let (EvictionReason::ConsecutiveFailures(a), EvictionReason::ConsecutiveFailures(b)) = (w, g) {
                        if a != b && m.marked.is_none() {
                            v.fail(format!("{ID}/get_eviction_candidates/wrong-failure-count"), format!("step {step}: peer {p} expected {a} got {b}"));
                        }
                    }
                }
                (Some(w), None) => v.fail(format!("{ID}/get_eviction_candidates/candidate-missing"), format!("step {step}: peer {p} should be a candidate ({w:?}); consecutive={} trust={:?}", m.consecutive, m.trust)),
                (None, Some(g)) => v.fail(format!("{ID}/get_eviction_candidates/not-a-candidate-listed"), format!("step {step}: peer {p} listed ({g:?}); consecutive={} limit={} trust={:?} threshold={thr}", m.consecutive, c.max_failures, m.trust)),
                (None, None) => {}
            }
            // single-peer queries agree
            if mgr.get_eviction_reason(&pid(*p)).is_some() != want.is_some() {
                v.fail(format!("{ID}/get_eviction_reason/disagrees-with-policy"), format!("step {step}: peer {p}"));
            }
            if mgr.should_evict(&pid(*p)) != by_fail {
                v.fail(format!("{ID}/should_evict/disagrees-with-consecutive-failure-rule"), format!("step {step}: peer {p} consecutive={} limit={}", m.consecutive, c.max_failures));
            }
            if mgr.should_evict_for_trust(&pid(*p)) != by_trust {
                v.fail(format!("{ID}/should_evict_for_trust/disagrees-with-threshold-rule"), format!("step {step}: peer {p} trust={:?} threshold={thr}", m.trust));
            }
        }
        for id in got_map.keys() {
            if !model.keys().any(|p| &pid(*p) == id) {
                v.fail(format!("{ID}/get_eviction_candidates/forgotten-peer-listed"), format!("step {step}: {id} is not tracked"));
            }
        }
        for p in entered.difference(&now_cand) {
            let _ = p;
            left = true;
        }
        entered.extend(now_cand.iter().cloned());
        if !v.ok() {
            break;
        }
    }
    v.nt(!entered.is_empty() && left);
    v.class(format!("limit_{}", c.max_failures));
    v
}

// ---------------- (b) routing removal ----------------
#[derive(Debug, Clone, Serialize, Deserialize)]
pub enum RtOp {
    Add(u8),
    Evict(u8, u8),
    Fail(u8),
    Lookup(u8, u8),
}
#[derive(Debug, Clone, Serialize, Deserialize)]
pub struct RtCase {
    ops: Vec<RtOp>,
}
fn spread_id(i: u8) -> NodeId {
    // ids spread over many buckets relative to the local id (all zero)
    let h = blake3::hash(&[i, 0xb1]);
    NodeId::from_bytes(*h.as_bytes())
}
fn node_info(id: NodeId, i: u32) -> NodeInfo {
    // distinct /16s so that the admission gates never interfere with this sub-check
    NodeInfo { id, address: format!("{}.{}.{}.10:9000", 11 + (i % 200), 1 + (i / 200) % 250, i % 7), last_seen: SystemTime::now(), capacity: NodeCapacity::default() }
}
fn run_routing(c: &RtCase) -> Verdict {
    let rt = paused_rt();
    rt.block_on(async {
        let mut v = Verdict::new();
        let mut eng = DhtCoreEngine::verif_new_log_only(NodeId::from_bytes([0u8; 32])).expect("engine");
        let mut present: HashSet<u8> = HashSet::new();
        let mut removed_then_looked = false;
        let mut ever_removed: HashSet<u8> = HashSet::new();
        for (step, op) in c.ops.iter().enumerate() {
            match op {
                RtOp::Add(i) => {
                    if eng.add_node(node_info(spread_id(*i), *i as u32 + 256 * (step as u32 % 50))).await.is_ok() {
                        present.insert(*i);
                    }
                }
                RtOp::Evict(i, r) => {
                    let _ = eng.evict_node(&spread_id(*i), reason(*r)).await;
                    if present.remove(i) {
                        ever_removed.insert(*i);
                    }
                }
                RtOp::Fail(i) => {
                    let _ = eng.handle_node_failure(spread_id(*i)).await;
                    if present.remove(i) {
                        ever_removed.insert(*i);
                    }
                }
                RtOp::Lookup(k, n) => {
                    let key = DhtKey::from_bytes(*blake3::hash(&[*k, 0x77]).as_bytes());
                    let res = eng.find_nodes(&key, *n as usize).await.unwrap_or_default();
                    for node in &res {
                        let known = present.iter().any(|p| spread_id(*p) == node.id);
                        if !known {
                            v.fail(format!("{ID}/find_nodes/evicted-or-failed-peer-still-answered"), format!("step {step}: {} returned although it was removed and not re-added", node.id));
                        }
                    }
                    if !ever_removed.is_empty() {
                        removed_then_looked = true;
                    }
                }
            }
            if !v.ok() {
                break;
            }
        }
        // final full listing
        let all = eng.find_nodes(&DhtKey::from_bytes([0x5a; 32]), 64).await.unwrap_or_default();
        for node in &all {
            if !present.iter().any(|p| spread_id(*p) == node.id) {
                v.fail(format!("{ID}/find_nodes/evicted-or-failed-peer-still-answered"), format!("final: {} returned although removed", node.id));
            }
        }
        v.nt(removed_then_looked);
        v
    })
}

// ---------------- (c) selector ----------------
pub struct MapTrust(pub HashMap<[u8; 32], f64>);
impl TrustProvider for MapTrust {
    fn get_trust(&self, node: &AdaptiveNodeId) -> f64 {
        self.0.get(&node.hash).copied().unwrap_or(0.0)
    }
    fn update_trust(&self, _: &AdaptiveNodeId, _: &AdaptiveNodeId, _: bool) {}
    fn get_global_trust(&self) -> HashMap<AdaptiveNodeId, f64> {
        HashMap::new()
    }
    fn remove_node(&self, _: &AdaptiveNodeId) {}
}
#[derive(Debug, Clone, Serialize, Deserialize)]
pub struct SelCand {
    /// which bytes of the id carry the difference: 0 = high bytes, 1 = bytes 16.., 2 = last byte only
    shape: u8,
    a: u8,
    b: u8,
    trust: TrustVal,
}
#[derive(Debug, Clone, Serialize, Deserialize)]
pub struct SelCase {
    key_byte: u8,
    key_zero: bool,
    cands: Vec<SelCand>,
    count: u8,
    /// 0 default, 1 queries, 2 storage (select_storage_peers), 3 random
    cfg: u8,
    w_milli: u16,
    thr_milli: u16,
    exclude: bool,
}
fn sel_id(c: &SelCand) -> [u8; 32] {
    let mut b = [0x33u8; 32];
    match c.shape % 6 {
        0 => {
            b[0] = c.a;
            b[1] = c.b;
        }
        1 => {
            b[16] = c.a;
            b[20] = c.b;
        }
        2 => {
            b[31] = c.a;
            b[30] = c.b & 1;
        }
        // ids that agree on the leading bytes and differ in the middle (where an f64 of the top half has run out of
        // mantissa) and in the low half, the two halves ordered independently ...
        3 => {
            b[8 + (c.b as usize % 8)] = c.a;
            b[24] = c.b;
        }
        // ... or deliberately the opposite way
        4 => {
            b[12] = c.a;
            b[16] = !c.a;
            b[31] = !c.a;
        }
        // any single byte
        _ => {
            b[c.b as usize % 32] = c.a;
        }
    }
    b
}
fn tval(t: &TrustVal) -> f64 {
    match t {
        TrustVal::Below => 0.19,
        TrustVal::At => 0.2,
        TrustVal::Above => 0.21,
        TrustVal::Zero => 0.0,
        TrustVal::One => 1.0,
        TrustVal::NaN => f64::NAN,
        TrustVal::Neg => -1.0,
        TrustVal::Big => 7.0,
        TrustVal::Val(x) => *x,
    }
}
fn xor(a: &[u8; 32], b: &[u8; 32]) -> [u8; 32] {
    let mut r = [0u8; 32];
    for i in 0..32 {
        r[i] = a[i] ^ b[i];
    }
    r
}
fn run_selector(c: &SelCase) -> Verdict {
    let mut v = Verdict::new();
    let key_bytes = if c.key_zero { [0u8; 32] } else { *blake3::hash(&[c.key_byte]).as_bytes() };
    let key = DhtKey::from_bytes(key_bytes);
    let mut seen = HashSet::new();
    let mut trust = HashMap::new();
    let mut cands = Vec::new();
    for (i, x) in c.cands.iter().enumerate() {
        let id = sel_id(x);
        if !seen.insert(id) {
            continue; // callers pass distinct peers
        }
        trust.insert(id, tval(&x.trust));
        cands.push(node_info(NodeId::from_bytes(id), i as u32));
    }
    let provider = Arc::new(MapTrust(trust.clone()));
    let (site, storage) = match c.cfg % 4 {
        2 => ("select_storage_peers", true),
        _ => ("select_peers", false),
    };
    let qcfg = match c.cfg % 4 {
        0 => TrustSelectionConfig::default(),
        1 => TrustSelectionConfig::for_queries(),
        2 => TrustSelectionConfig::default(),
        _ => TrustSelectionConfig { trust_weight: c.w_milli as f64 / 1000.0, min_trust_threshold: c.thr_milli as f64 / 1000.0, exclude_untrusted: c.exclude },
    };
    let sel = TrustAwarePeerSelector::new(provider, qcfg.clone());
    let count = c.count as usize;
    let out = if storage { sel.select_storage_peers(&key, &cands, count) } else { sel.select_peers(&key, &cands, count) };
    v.check(out.len() <= count, &format!("{ID}/{site}/more-than-requested"), || format!("{} > {count}", out.len()));
    let ids: Vec<[u8; 32]> = out.iter().map(|n| *n.id.as_bytes()).collect();
    let uniq: HashSet<&[u8; 32]> = ids.iter().collect();
    v.check(uniq.len() == ids.len(), &format!("{ID}/{site}/peer-selected-twice"), || "duplicate in selection".into());
    v.check(ids.iter().all(|i| seen.contains(i)), &format!("{ID}/{site}/foreign-peer-selected"), || "selected id is not a candidate".into());
    if storage {
        for i in &ids {
            let t = trust[i];
            v.check(!(t < 0.2), &format!("{ID}/{site}/peer-below-storage-trust-floor-selected"), || format!("trust {t} < 0.2"));
        }
    }
    // ranking: x before y, equal trust ⇒ dist(x) ≤ dist(y) (full 256-bit distance)
    let effective_w = if storage { 0.5 } else { qcfg.trust_weight };
    let mut near_pairs = false;
    for i in 0..ids.len() {
        for j in (i + 1)..ids.len() {
            let (ti, tj) = (trust[&ids[i]], trust[&ids[j]]);
            let (di, dj) = (xor(&ids[i], &key_bytes), xor(&ids[j], &key_bytes));
            if ids[i][..16] == ids[j][..16] {
                near_pairs = true;
            }
            // the ranking claims presuppose trust in [0,1] and a weight in [0,1]
            let sane = (0.0..=1.0).contains(&ti) && (0.0..=1.0).contains(&tj) && (0.0..=1.0).contains(&effective_w);
            if sane && ti == tj && di > dj {
                v.fail(format!("{ID}/{site}/farther-peer-ranked-ahead-of-closer-one-of-equal-trust"), format!("positions {i},{j}: trust {ti}; ids …{:02x?} before …{:02x?} for key …{:02x?}", &ids[i][28..], &ids[j][28..], &key_bytes[28..]));
                break;
            }
            if sane && di == dj && ti < tj {
                v.fail(format!("{ID}/{site}/less-trusted-peer-ranked-ahead-at-equal-distance"), format!("positions {i},{j}"));
                break;
            }
        }
        if !v.ok() {
            break;
        }
    }
    // completeness for equal trust: if every candidate has the same in-range trust and nothing is excluded,
    // the selection is exactly the closest `count` in order
    let all_t: Vec<f64> = cands.iter().map(|n| trust[n.id.as_bytes()]).collect();
    if let Some(t0) = all_t.first() {
        let excluded = (storage && *t0 < 0.2) || (!storage && qcfg.exclude_untrusted && *t0 < qcfg.min_trust_threshold);
        if (0.0..=1.0).contains(t0) && all_t.iter().all(|t| t == t0) && !excluded && (0.0..=1.0).contains(&effective_w) && (effective_w > 0.0 || *t0 > 0.0) {
            let mut want: Vec<[u8; 32]> = cands.iter().map(|n| *n.id.as_bytes()).collect();
            want.sort_by_key(|i| xor(i, &key_bytes));
            want.truncate(count);
            v.check(ids == want, &format!("{ID}/{site}/equal-trust-selection-is-not-the-closest-in-order"), || format!("got {} ids, want {}; first difference at {:?}", ids.len(), want.len(), ids.iter().zip(want.iter()).position(|(a, b)| a != b)));
            v.class("uniform_trust");
        }
    }
    v.nt(near_pairs || cands.len() >= 2 && out.len() >= 2 && {
        let mut eq = false;
        for i in 0..cands.len() {
            for j in (i + 1)..cands.len() {
                let (a, b) = (cands[i].id.as_bytes(), cands[j].id.as_bytes());
                if a[..16] == b[..16] && trust[a] == trust[b] {
                    eq = true;
                }
            }
        }
        eq
    });
    v.class(site);
    v
}

// ---------------- (d) selection disabled: store receipt = closest in distance order -------------
#[derive(Debug, Clone, Serialize, Deserialize)]
pub struct DisCase {
    ids: Vec<(u8, u8)>, // (bucket-ish byte position, value)
    key: u8,
}
fn run_disabled(c: &DisCase) -> Verdict {
    let rt = paused_rt();
    rt.block_on(async {
        let mut v = Verdict::new();
        let local = NodeId::from_bytes([0u8; 32]);
        let mut eng = DhtCoreEngine::verif_new_log_only(local).expect("engine");
        let mut set: Vec<[u8; 32]> = Vec::new();
        let mut infos = Vec::new();
        for (i, (pos, val)) in c.ids.iter().enumerate() {
            let mut b = *blake3::hash(&[*pos, *val, 0xd1]).as_bytes();
            // force the leading zero bits so that ids land in bucket `pos % 12`
            let bucket = (*pos % 12) as usize;
            for bit in 0..bucket {
                b[bit / 8] &= !(0x80 >> (bit % 8));
            }
            b[bucket / 8] |= 0x80 >> (bucket % 8);
            if set.contains(&b) {
                continue;
            }
            set.push(b);
            infos.push(node_info(NodeId::from_bytes(b), i as u32));
        }
        // join_network fails as a whole on a full bucket; add one by one and keep what was admitted
        let mut admitted: Vec<[u8; 32]> = Vec::new();
        for n in infos {
            let id = *n.id.as_bytes();
            if eng.join_network(vec![n]).await.is_ok() {
                admitted.push(id);
            }
        }
        let key_bytes = *blake3::hash(&[c.key, 0x4b]).as_bytes();
        let key = DhtKey::from_bytes(key_bytes);
        let receipt = eng.store(&key, vec![1, 2, 3]).await;
        match receipt {
            Err(e) => v.fail(format!("{ID}/DhtCoreEngine::store/small-value-refused"), format!("{e}")),
            Ok(r) => {
                let got: Vec<[u8; 32]> = r.stored_at.iter().map(|n| *n.as_bytes()).collect();
                let mut want = admitted.clone();
                want.sort_by_key(|i| xor(i, &key_bytes));
                want.truncate(8);
                v.check(got == want, &format!("{ID}/DhtCoreEngine::store/selection-disabled-choice-is-not-the-closest-in-order"), || {
                    format!("table {} peers; stored_at {:?} expected {:?}", admitted.len(), got.iter().map(|i| hex::encode(&i[..3])).collect::<Vec<_>>(), want.iter().map(|i| hex::encode(&i[..3])).collect::<Vec<_>>())
                });
            }
        }
        let mut buckets = HashSet::new();
        for a in &admitted {
            buckets.insert(a.iter().position(|x| *x != 0).map(|p| p * 8 + a[p].leading_zeros() as usize));
        }
        v.nt(admitted.len() > 8 && buckets.len() >= 2);
        v
    })
}

fn trust_val() -> impl Strategy<Value = TrustVal> {
    prop_oneof![
        2 => Just(TrustVal::Below), 2 => Just(TrustVal::At), 2 => Just(TrustVal::Above), 1 => Just(TrustVal::Zero), 1 => Just(TrustVal::One),
        1 => Just(TrustVal::NaN), 1 => Just(TrustVal::Neg), 1 => Just(TrustVal::Big), 3 => (0.0f64..=1.0).prop_map(TrustVal::Val),
    ]
}
/// trust values for the selector: mostly a handful of in-range values so that equal-trust pairs are common
fn sel_trust() -> impl Strategy<Value = TrustVal> {
    prop_oneof![
        4 => Just(TrustVal::Val(0.5)), 3 => Just(TrustVal::One), 2 => Just(TrustVal::Above), 2 => Just(TrustVal::Below), 1 => Just(TrustVal::At), 1 => Just(TrustVal::Zero),
        1 => Just(TrustVal::NaN), 1 => Just(TrustVal::Neg), 1 => Just(TrustVal::Big), 1 => (0.0f64..=1.0).prop_map(TrustVal::Val),
    ]
}

pub fn run(run: &Run) {
    run.assume("ranking claims are asserted for trust values and weights inside [0,1]; NaN/out-of-range trust is generated and must not panic or break distinctness/membership");
    run.assume("candidate lists carry pairwise distinct ids (what closest-node answers are supposed to deliver, C02)");
    run.set_rule("eviction", "config (failure limit 1..6, threshold 0..1) × history of success/failure/trust-update/mark/forget over ≤8 peers, candidate set compared with the reference model after every step; non-trivial = some peer entered and later left candidacy");
    run.set_rule("routing", "add/evict/fail/lookup histories on a LogOnly core engine; non-trivial = a lookup after at least one removal");
    run.set_rule("selector", "0..64 candidates whose ids differ in high bytes, only below byte 16, or only in the last byte; trust from a harness TrustProvider incl. NaN/−1/7; counts 0..70; default/queries/storage/random configs; non-trivial = ≥2 equal-trust candidates agreeing in the first 16 id bytes");
    run.set_rule("disabled", "routing tables with populated buckets 0..11 via join_network, trust selection off: StoreReceipt.stored_at must be the 8 closest in order; non-trivial = >8 peers over ≥2 buckets");
    let sh = shards_for(run.tier);
    let len = run.tier.pick(80usize, 2000);
    let evop = prop_oneof![
        4 => (0u8..8).prop_map(EvOp::Success),
        8 => (0u8..8).prop_map(EvOp::Failure),
        4 => (0u8..8, trust_val()).prop_map(|(p, t)| EvOp::Trust(p, t)),
        1 => (0u8..8, 0u8..4).prop_map(|(p, r)| EvOp::Mark(p, r)),
        1 => (0u8..8).prop_map(EvOp::Forget),
    ];
    let evcase = (1u32..=6, 0u16..=1000, prop::collection::vec(evop, 1..len)).prop_map(|(max_failures, threshold_milli, ops)| EvCase { max_failures, threshold_milli, ops });
    run.prop("eviction", run.tier.pick(22500, 300000), sh, evcase, run_eviction);

    let rtop = prop_oneof![
        6 => (0u8..40).prop_map(RtOp::Add),
        2 => (0u8..40, 0u8..4).prop_map(|(i, r)| RtOp::Evict(i, r)),
        2 => (0u8..40).prop_map(RtOp::Fail),
        3 => (any::<u8>(), 0u8..=64).prop_map(|(k, n)| RtOp::Lookup(k, n)),
    ];
    let rtcase = prop::collection::vec(rtop, 1..run.tier.pick(60, 400)).prop_map(|ops| RtCase { ops });
    run.prop("routing", run.tier.pick(9000, 100000), sh, rtcase, run_routing);

    let cand = (prop_oneof![1 => Just(0u8), 2 => Just(1u8), 3 => Just(2u8), 3 => Just(3u8), 3 => Just(4u8), 2 => Just(5u8)], any::<u8>(), any::<u8>(), sel_trust()).prop_map(|(shape, a, b, trust)| SelCand { shape, a, b, trust });
    let selcase = (any::<u8>(), prop::bool::weighted(0.3), prop::collection::vec(cand, 0..64), 0u8..=70, 0u8..4, 0u16..=1000, 0u16..=1000, any::<bool>()).prop_map(|(key_byte, key_zero, cands, count, cfg, w_milli, thr_milli, exclude)| SelCase { key_byte, key_zero, cands, count, cfg, w_milli, thr_milli, exclude });
    run.prop("selector", run.tier.pick(45000, 600000), sh, selcase, run_selector);

    let dis = (prop::collection::vec((0u8..12, any::<u8>()), 0..60), any::<u8>()).prop_map(|(ids, key)| DisCase { ids, key });
    run.prop("disabled", run.tier.pick(12000, 150000), sh, dis, run_disabled);
}

pub fn replay(run: &Run, sub: &str, case: &Value) -> Option<bool> {
    match sub {
        "eviction" => Some(run.eval_case("replay/eviction", &from_value::<EvCase>(case)?, &run_eviction)),
        "routing" => Some(run.eval_case("replay/routing", &from_value::<RtCase>(case)?, &run_routing)),
        "selector" => Some(run.eval_case("replay/selector", &from_value::<SelCase>(case)?, &run_selector)),
        "disabled" => Some(run.eval_case("replay/disabled", &from_value::<DisCase>(case)?, &run_disabled)),
        _ => None,
    }
}
