//! C11 — unvouched identities gain no meaningful trust; anchors keep a floor.
//! Oracle: bound on the aggregate score of a closed (unvouched) set and a floor
//! for every anchor, over generated honest graphs × Sybil patterns.
use crate::engine::*;
use proptest::prelude::*;
use saorsa_core::adaptive::trust::{EigenTrustEngine, NodeStatisticsUpdate};
use saorsa_core::adaptive::NodeId;
use serde::{Deserialize, Serialize};
use serde_json::Value;
use std::collections::HashSet;

const ID: &str = "C11";

#[derive(Debug, Clone, Serialize, Deserialize)]
pub enum Pattern {
    Clique,
    Star,
    Chain,
    SelfLoops,
    Random(Vec<(u16, u16)>),
    None,
}
#[derive(Debug, Clone, Serialize, Deserialize)]
pub struct Case {
    h: u16,
    anchors: u16,
    s: u16,
    /// honest edges (from, to, positive) over 0..h
    honest_edges: Vec<(u16, u16, bool)>,
    /// repeated statements strengthen an edge (EMA)
    repeat: u8,
    pattern: Pattern,
    /// Sybil → honest statements (outgoing only)
    sybil_out: Vec<(u16, u16)>,
    /// every node receives the same statistics (0 = none at all)
    equal_stats: u8,
    /// honest nodes (indices) all of whose statements are negative reports
    #[serde(default)]
    neg_only: Vec<u16>,
    /// nobody receives statistics at all (equal: none); identities exist for the engine only through statements
    #[serde(default)]
    no_stats: bool,
}

fn hid(i: u16) -> NodeId {
    let mut b = [0u8; 32];
    b[0] = 0x11;
    b[1] = (i >> 8) as u8;
    b[2] = i as u8;
    NodeId::from_bytes(b)
}
fn sid(i: u16) -> NodeId {
    let mut b = [0u8; 32];
    b[0] = 0x55;
    b[1] = (i >> 8) as u8;
    b[2] = i as u8;
    NodeId::from_bytes(b)
}

fn run_case(c: &Case) -> Verdict {
    let rt = paused_rt();
    rt.block_on(async {
        let mut v = Verdict::new();
        let h = c.h.max(1);
        let a = c.anchors.clamp(1, h);
        let s = c.s.max(1);
        let pre: HashSet<NodeId> = (0..a).map(hid).collect();
        let e = EigenTrustEngine::new(pre);
        let neg: HashSet<u16> = c.neg_only.iter().map(|x| x % h).collect();
        // identities the engine has heard of (the population the property speaks about)
        let mut known_h: HashSet<u16> = (0..a).collect();
        let mut known_s: HashSet<u16> = HashSet::new();
        for (x, y, _) in &c.honest_edges {
            known_h.insert(x % h);
            known_h.insert(y % h);
        }
        for (x, y, ok) in &c.honest_edges {
            for _ in 0..c.repeat.max(1) {
                e.update_local_trust(&hid(x % h), &hid(y % h), *ok && !neg.contains(&(x % h))).await;
            }
        }
        let mut internal = 0usize;
        let mut edge = |x: u16, y: u16| {
            internal += 1;
            (sid(x % s), sid(y % s))
        };
        let mut sy: Vec<(NodeId, NodeId)> = Vec::new();
        match &c.pattern {
            Pattern::Clique => {
                let m = s.min(40);
                for x in 0..m {
                    for y in 0..m {
                        if x != y {
                            sy.push(edge(x, y));
                        }
                    }
                }
                for x in m..s {
                    sy.push(edge(x, x % m));
                    sy.push(edge(x % m, x));
                }
            }
            Pattern::Star => {
                for x in 1..s {
                    sy.push(edge(x, 0));
                    sy.push(edge(0, x));
                }
                if s == 1 {
                    sy.push(edge(0, 0));
                }
            }
            Pattern::Chain => {
                for x in 0..s {
                    sy.push(edge(x, (x + 1) % s));
                }
            }
            Pattern::SelfLoops => {
                for x in 0..s {
                    sy.push(edge(x, x));
                }
            }
            Pattern::Random(es) => {
                for (x, y) in es {
                    sy.push(edge(*x, *y));
                }
            }
            Pattern::None => {}
        }
        for (x, y) in &sy {
            e.update_local_trust(x, y, true).await;
        }
        for (x, y) in &c.sybil_out {
            e.update_local_trust(&sid(x % s), &hid(y % h), true).await;
            known_s.insert(x % s);
            known_h.insert(y % h);
        }
        for i in 0..s {
            if sy.iter().any(|(x, y)| *x == sid(i) || *y == sid(i)) {
                known_s.insert(i);
            }
        }
        // equal statistics for all: the same number of reports for everybody - or, in the `no_stats` mode, none
        // for anybody (then only identities that occur in a statement, and the anchors, exist for the engine)
        let reports = if c.no_stats { 0 } else { (c.equal_stats % 4).max(1) };
        for i in 0..h {
            for _ in 0..reports {
                e.update_node_stats(&hid(i), NodeStatisticsUpdate::CorrectResponse).await;
            }
        }
        for i in 0..s {
            for _ in 0..reports {
                e.update_node_stats(&sid(i), NodeStatisticsUpdate::CorrectResponse).await;
            }
        }
        let (h_pop, s_pop) = if c.no_stats { (known_h.len() as u16, known_s.len() as u16) } else { (h, s) };
        if s_pop == 0 {
            v.class("no_unvouched_identity_known");
            return v;
        }
        let m = e.compute_global_trust().await;
        let total: f64 = m.values().sum();
        let syb: f64 = (0..s).map(|i| m.get(&sid(i)).copied().unwrap_or(0.0)).sum();
        let n = (h_pop + s_pop) as f64;
        let site = "compute_global_trust";
        let (h, s) = (h_pop, s_pop);
        if c.no_stats {
            v.class("nobody_has_statistics");
        }
        if total > 0.0 {
            let share = syb / total;
            let bound = (1.0 / 7.0) * (s as f64 / n) + 1e-9;
            if share > bound {
                v.fail(format!("{ID}/{site}/unvouched-set-exceeds-one-seventh-of-its-population-share"), format!("{s} unvouched of {} nodes ({a} anchors) hold {share:.6} of all trust; bound {bound:.6}; pattern {:?}", h + s, pattern_name(&c.pattern)));
            }
            if (h + s) <= 100 && share >= 0.001 {
                v.fail(format!("{ID}/{site}/unvouched-set-holds-0.1-percent-or-more-in-small-network"), format!("{s} unvouched of {} nodes hold {share:.6}; pattern {:?}", h + s, pattern_name(&c.pattern)));
            }
            for i in 0..a {
                let t = m.get(&hid(i)).copied().unwrap_or(0.0) / total;
                if t < 0.4 / a as f64 - 1e-9 {
                    v.fail(format!("{ID}/{site}/anchor-below-floor"), format!("anchor {i} of {a} holds {t:.6} < {:.6}", 0.4 / a as f64));
                    break;
                }
            }
        } else {
            v.fail(format!("{ID}/{site}/no-trust-computed"), format!("total trust {total} with {a} anchors present"));
        }
        v.nt(internal >= 1);
        v.class(pattern_name(&c.pattern));
        v.class(if c.honest_edges.is_empty() { "honest_no_statements" } else { "honest_with_statements" });
        v.class(if h + s <= 100 { "n<=100" } else if h + s <= 500 { "n<=500" } else { "n>500" });
        if !c.sybil_out.is_empty() {
            v.class("sybil_rates_honest");
        }
        if (0..a).all(|i| neg.contains(&i)) && c.honest_edges.iter().any(|(x, _, _)| x % h < a) {
            v.class("all_anchors_report_only_failures");
        }
        v
    })
}

fn pattern_name(p: &Pattern) -> &'static str {
    match p {
        Pattern::Clique => "clique",
        Pattern::Star => "star",
        Pattern::Chain => "chain",
        Pattern::SelfLoops => "self_loops",
        Pattern::Random(_) => "random",
        Pattern::None => "no_internal_edges",
    }
}

fn case(max_h: u16, max_s: u16) -> impl Strategy<Value = Case> {
    (1u16..=max_h, 1u16..=max_s).prop_flat_map(|(h, s)| {
        let density = prop_oneof![2 => Just(0usize), 2 => Just(h as usize), 2 => Just(3 * h as usize), 1 => Just((h as usize * h as usize).min(3000))];
        let honest = density.prop_flat_map(move |d| prop::collection::vec((0..h, 0..h, prop::bool::weighted(0.9)), 0..=d));
        let pattern = prop_oneof![
            2 => Just(Pattern::Clique),
            2 => Just(Pattern::Star),
            2 => Just(Pattern::Chain),
            3 => Just(Pattern::SelfLoops),
            2 => prop::collection::vec((0..s, 0..s), 1..(3 * s as usize + 2)).prop_map(Pattern::Random),
            1 => Just(Pattern::None),
        ];
        // negative-only reporters: none, the first few nodes (= the anchors), or a random subset
        let neg = prop_oneof![3 => Just(Vec::new()), 2 => (1u16..=4).prop_map(|k| (0..k).collect::<Vec<u16>>()), 1 => prop::collection::vec(0..h, 0..8), 1 => Just((0..h).collect::<Vec<u16>>())];
        (prop_oneof![3 => 1u16..=3, 2 => 1u16..=50], honest, 1u8..4, pattern, prop::collection::vec((0..s, 0..h), 0..6), 0u8..4, neg, prop::bool::weighted(0.25)).prop_map(move |(anchors, honest_edges, repeat, pattern, sybil_out, equal_stats, neg_only, no_stats)| Case { h, anchors, s, honest_edges, repeat, pattern, sybil_out, equal_stats, neg_only, no_stats })
    })
}

pub fn run(run: &Run) {
    run.assume("'no trust statement from outside the set' is built by construction: no honest→Sybil edge exists; Sybils may rate honest nodes");
    run.assume("all identities receive identical statistics so the multi-factor multiplier is equal, as the property presupposes");
    run.set_rule("graph", "honest graph on h nodes (density 0..h², incl. no outgoing statements at all), 1..50 anchors, s unvouched identities with clique/star/chain/self-loop/random/no internal edges, optional Sybil→honest statements; non-trivial = ≥1 internal edge; distinct by case hash");
    let sh = shards_for(run.tier);
    run.prop("graph", run.tier.pick(50000, 144000), sh, case(60, 60), run_case);
    run.prop("graph", run.tier.pick(6000, 36000), sh, case(300, 300), run_case);
    run.prop("graph", run.tier.pick(1200, 7200), sh, case(1000, 1000), run_case);
}

pub fn replay(run: &Run, sub: &str, case: &Value) -> Option<bool> {
    match sub {
        "graph" => Some(run.eval_case("replay/graph", &from_value::<Case>(case)?, &run_case)),
        _ => None,
    }
}
