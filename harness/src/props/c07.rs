//! C07 — damaged log or snapshot data is detected and never replayed as state.
//! Level: fault_enumeration. A cleanly closed state directory (generated history, rotation,
//! snapshots) is damaged by a generated corruption script; the reopened state is compared with
//! an independent reference replay of the damaged files (records count only if they are
//! field-for-field identical to a record this store really wrote), plus genuineness of every
//! value, damage reporting, memory bound and no panic.
use super::c06::{config, copy_dir, key, State, Val};
use crate::engine::*;
use proptest::prelude::*;
use saorsa_core::persistent_state::{PersistentStateManager, SnapshotHeader, TransactionType, WalEntry};
use serde::{Deserialize, Serialize};
use serde_json::Value;
use sha2::{Digest, Sha256};
use std::collections::{HashMap, HashSet};
use std::path::{Path, PathBuf};

use arbitrary::Unstructured;

const ID: &str = "C07";

#[derive(Debug, Clone, Serialize, Deserialize)]
pub enum BuildOp {
    Upsert(u8, u8),
    Delete(u8),
    Batch(Vec<(u8, Option<u8>)>),
    Checkpoint,
}
#[derive(Debug, Clone, Serialize, Deserialize)]
pub enum Corr {
    /// (file pick, offset pick, number of bits 1..=8, seed)
    FlipBits(u16, u16, u8, u8),
    Overwrite(u16, u16, u8, u8),
    /// (file pick, offset pick, bytes): arbitrary bytes written over the file content (coverage-guided stage)
    OverwriteBytes(u16, u16, Vec<u8>),
    Truncate(u16, u16),
    Append(u16, u8, u8),
    DuplicateRecord(u16, u16),
    MoveRecord(u16, u16, u16),
    /// copy record #n of the *other* store to the end of a file of this store
    Transplant(u16, u16),
    /// rewrite the length prefix of a record: 0 → 0, 1 → len-1, 2 → len+1, 3 → 0x7fffffff, 4 → 0xffffffff
    RewriteLength(u16, u16, u8),
    /// move the key/value boundary of a record, keeping its tag
    Resplit(u16, u16),
    DeleteFile(u16),
    /// flip a bit of the integrity key file
    KeyFile(u16),
    /// overwrite one byte of a snapshot header outside its checksum field (version, timestamps, ids, counts)
    SnapHeader(u16, u8, u8),
    /// rewrite one field of a snapshot header, keeping the header well-formed (decoded, changed, re-encoded with a
    /// matching length prefix; data section and its checksum untouched): (file pick, field 0..=4 = version,
    /// created_at, last_transaction_id, entry_count, total_size, value pick)
    SnapHeaderField(u16, u8, u8),
}
#[derive(Debug, Clone, Serialize, Deserialize)]
pub struct Case {
    rotation: u8,
    build: Vec<BuildOp>,
    other: Vec<BuildOp>,
    script: Vec<Corr>,
}

fn val_a(s: u8) -> Val {
    (s as u32 * 7 + 1, vec![s; (s % 23) as usize])
}
fn val_b(s: u8) -> Val {
    (1_000_000 + s as u32, vec![s ^ 0x5a; (s % 11) as usize])
}

struct Built {
    final_state: State,
    ever: HashMap<String, HashSet<Val>>,
}

async fn build(dir: &Path, ops: &[BuildOp], rotation: u8, b_store: bool) -> Result<Built, String> {
    let mk = |s: u8| if b_store { val_b(s) } else { val_a(s) };
    saorsa_core::verif_hooks::set_rotation_threshold(if rotation == 0 { None } else { Some(3 + (rotation % 9) as usize) });
    let m = PersistentStateManager::<Val>::new(config(dir, 0)).await.map_err(|e| e.to_string())?;
    let mut st = State::new();
    let mut ever: HashMap<String, HashSet<Val>> = HashMap::new();
    for op in ops {
        match op {
            BuildOp::Upsert(k, s) => {
                m.upsert(key(*k), mk(*s)).await.map_err(|e| e.to_string())?;
                st.insert(key(*k), mk(*s));
                ever.entry(key(*k)).or_default().insert(mk(*s));
            }
            BuildOp::Delete(k) => {
                m.delete(&key(*k)).await.map_err(|e| e.to_string())?;
                st.remove(&key(*k));
            }
            BuildOp::Batch(ch) => {
                let ch2: Vec<(String, Option<Val>)> = ch.iter().map(|(k, s)| (key(*k), s.map(mk))).collect();
                let ch3 = ch2.clone();
                m.batch_update(move |s| {
                    for (k, v) in &ch3 {
                        match v {
                            Some(v) => {
                                s.insert(k.clone(), v.clone());
                            }
                            None => {
                                s.remove(k);
                            }
                        }
                    }
                    Ok(())
                })
                .await
                .map_err(|e| e.to_string())?;
                for (k, v) in ch2 {
                    match v {
                        Some(v) => {
                            st.insert(k.clone(), v.clone());
                            ever.entry(k).or_default().insert(v);
                        }
                        None => {
                            st.remove(&k);
                        }
                    }
                }
            }
            BuildOp::Checkpoint => {
                m.checkpoint().await.map_err(|e| e.to_string())?;
            }
        }
    }
    let live = m.get_all().map_err(|e| e.to_string())?;
    if live != st {
        return Err("live state differs from the model while building".into());
    }
    drop(m);
    saorsa_core::verif_hooks::set_rotation_threshold(None);
    Ok(Built { final_state: st, ever })
}

#[derive(Clone)]
struct Rec {
    file: String,
    offset: usize,
    len: usize, // including the 4-byte prefix
    entry: WalEntry,
}
fn same(a: &WalEntry, b: &WalEntry) -> bool {
    a.version == b.version && a.transaction_id == b.transaction_id && a.timestamp == b.timestamp && a.transaction_type == b.transaction_type && a.key == b.key && a.value == b.value && a.hmac == b.hmac
}
fn data_files(dir: &Path) -> Vec<PathBuf> {
    let mut v: Vec<PathBuf> = std::fs::read_dir(dir).map(|rd| rd.flatten().map(|e| e.path()).filter(|p| matches!(p.extension().and_then(|x| x.to_str()), Some("wal") | Some("snap"))).collect()).unwrap_or_default();
    v.sort();
    v
}
/// WAL files in replay order: rotated by name, current last.
fn wal_files(dir: &Path) -> Vec<PathBuf> {
    let mut v: Vec<PathBuf> = data_files(dir).into_iter().filter(|p| p.extension().map(|x| x == "wal").unwrap_or(false)).collect();
    v.sort_by_key(|p| (p.file_name().map(|n| n == "state.wal").unwrap_or(false), p.file_name().map(|n| n.to_os_string())));
    v
}
/// Frame a WAL file the way the specification says: a record that does not fit ends the intact prefix.
fn frames(bytes: &[u8]) -> (Vec<(usize, usize)>, bool) {
    let mut out = Vec::new();
    let mut pos = 0usize;
    let mut torn = false;
    while pos < bytes.len() {
        if bytes.len() - pos < 4 {
            torn = true;
            break;
        }
        let n = u32::from_le_bytes(bytes[pos..pos + 4].try_into().unwrap()) as usize;
        if n > bytes.len() - pos - 4 {
            torn = true;
            break;
        }
        out.push((pos, 4 + n));
        pos += 4 + n;
    }
    (out, torn)
}
fn originals(dir: &Path) -> Vec<Rec> {
    let mut out = Vec::new();
    for f in wal_files(dir) {
        let b = std::fs::read(&f).unwrap_or_default();
        for (off, len) in frames(&b).0 {
            if let Ok(e) = postcard::from_bytes::<WalEntry>(&b[off + 4..off + len]) {
                out.push(Rec { file: f.file_name().unwrap().to_string_lossy().to_string(), offset: off, len, entry: e });
            }
        }
    }
    out
}
/// Reference: load the newest self-consistent snapshot of a (possibly damaged) directory.
fn ref_snapshot(dir: &Path) -> (State, Option<String>) {
    let mut snaps: Vec<PathBuf> = data_files(dir).into_iter().filter(|p| p.extension().map(|x| x == "snap").unwrap_or(false)).collect();
    snaps.sort();
    snaps.reverse();
    for s in snaps {
        let b = std::fs::read(&s).unwrap_or_default();
        let ok = (|| {
            if b.len() < 4 {
                return None;
            }
            let n = u32::from_le_bytes(b[..4].try_into().unwrap()) as usize;
            if 4 + n > b.len() {
                return None;
            }
            let h: SnapshotHeader = postcard::from_bytes(&b[4..4 + n]).ok()?;
            let data = &b[4 + n..];
            let sum: [u8; 32] = Sha256::digest(data).into();
            if sum != h.checksum {
                return None;
            }
            postcard::from_bytes::<State>(data).ok()
        })();
        if let Some(st) = ok {
            return (st, s.file_name().map(|n| n.to_string_lossy().to_string()));
        }
    }
    (State::new(), None)
}
/// last_transaction_id recorded in each snapshot header of a (clean) directory
fn snapshot_ids(dir: &Path) -> HashMap<String, u64> {
    let mut out = HashMap::new();
    for p in data_files(dir).into_iter().filter(|p| p.extension().map(|x| x == "snap").unwrap_or(false)) {
        let b = std::fs::read(&p).unwrap_or_default();
        if b.len() > 4 {
            let n = u32::from_le_bytes(b[..4].try_into().unwrap()) as usize;
            if 4 + n <= b.len() {
                if let Ok(h) = postcard::from_bytes::<SnapshotHeader>(&b[4..4 + n]) {
                    out.insert(p.file_name().unwrap().to_string_lossy().to_string(), h.last_transaction_id);
                }
            }
        }
    }
    out
}
/// Reference replay of a (possibly damaged) directory. `skip_covered`: leave out records whose transaction id is
/// covered by the loaded snapshot according to the id that snapshot *originally* recorded (an implementation may
/// or may not re-apply such records; both are fine - trusting a damaged header field for it is not).
fn reference(dir: &Path, orig: &[Rec], skip_covered: Option<&HashMap<String, u64>>) -> State {
    let (mut st, loaded) = ref_snapshot(dir);
    let covered: u64 = match (skip_covered, loaded) {
        (Some(ids), Some(name)) => ids.get(&name).copied().unwrap_or(0),
        _ => 0,
    };
    let mut open: HashMap<u64, Vec<WalEntry>> = HashMap::new();
    for f in wal_files(dir) {
        let b = std::fs::read(&f).unwrap_or_default();
        for (off, len) in frames(&b).0 {
            let Ok(e) = postcard::from_bytes::<WalEntry>(&b[off + 4..off + len]) else { continue };
            if !orig.iter().any(|o| same(&o.entry, &e)) {
                continue;
            }
            if e.transaction_id <= covered {
                continue;
            }
            let id = e.transaction_id;
            let apply: Vec<WalEntry> = match e.transaction_type {
                TransactionType::Batch => {
                    open.entry(id).or_default().push(e);
                    vec![]
                }
                TransactionType::Checkpoint => open.remove(&id).unwrap_or_default(),
                _ => vec![e],
            };
            for a in apply {
                match (&a.transaction_type, &a.value) {
                    (TransactionType::Delete, _) | (TransactionType::Batch, None) => {
                        st.remove(&a.key);
                    }
                    (_, Some(v)) => {
                        if let Ok(val) = postcard::from_bytes::<Val>(v) {
                            st.insert(a.key.clone(), val);
                        }
                    }
                    _ => {}
                }
            }
        }
    }
    st
}

struct Applied {
    must_report: bool,
    hits_deciding_record: bool,
    desc: Vec<String>,
}

fn apply_script(dir: &Path, other_dir: &Path, script: &[Corr], final_state: &State) -> Applied {
    let mut must_report = false;
    let mut deciding = false;
    let mut desc = Vec::new();
    let other_recs = originals(other_dir);
    for c in script {
        let files = data_files(dir);
        if files.is_empty() {
            break;
        }
        let pick = |p: u16| files[idx(p, files.len())].clone();
        // records of a file as they are *now*
        let recs_of = |f: &Path| -> (Vec<u8>, Vec<(usize, usize)>) {
            let b = std::fs::read(f).unwrap_or_default();
            let fr = if f.extension().map(|x| x == "wal").unwrap_or(false) { frames(&b).0 } else { vec![] };
            (b, fr)
        };
        let decides = |b: &[u8], off: usize, len: usize| -> bool {
            postcard::from_bytes::<WalEntry>(&b[off + 4..off + len]).ok().map(|e| match (&e.value, final_state.get(&e.key)) {
                (Some(v), Some(fin)) => postcard::from_bytes::<Val>(v).ok().as_ref() == Some(fin),
                (None, None) => true,
                _ => false,
            }).unwrap_or(false)
        };
        match c {
            Corr::FlipBits(fp, op, nbits, seed) => {
                let f = pick(*fp);
                let (mut b, fr) = recs_of(&f);
                if b.is_empty() {
                    continue;
                }
                let off = idx(*op, b.len());
                for i in 0..(*nbits).clamp(1, 8) as usize {
                    let bit = (off * 8 + (*seed as usize + i * 3) % 8 + i * 8) % (b.len() * 8);
                    b[bit / 8] ^= 1 << (bit % 8);
                }
                let is_wal = f.extension().map(|x| x == "wal").unwrap_or(false);
                if is_wal {
                    if let Some((o, l)) = fr.iter().find(|(o, l)| off >= *o && off < o + l) {
                        must_report = true;
                        let orig_b = std::fs::read(&f).unwrap_or_default();
                        if decides(&orig_b, *o, *l) {
                            deciding = true;
                        }
                    }
                } else {
                    // snapshot: checksum field or data region
                    let ob = std::fs::read(&f).unwrap_or_default();
                    if ob.len() > 4 {
                        let n = u32::from_le_bytes(ob[..4].try_into().unwrap()) as usize;
                        if off >= 4 + n.saturating_sub(32) {
                            must_report = true;
                        }
                    }
                }
                let _ = std::fs::write(&f, &b);
                desc.push(format!("flip {} bits at {off} of {}", nbits, f.file_name().unwrap().to_string_lossy()));
            }
            Corr::Overwrite(fp, op, len, byte) => {
                let f = pick(*fp);
                let (mut b, fr) = recs_of(&f);
                if b.is_empty() {
                    continue;
                }
                let off = idx(*op, b.len());
                let end = (off + (*len).clamp(1, 16) as usize).min(b.len());
                let mut changed = false;
                for x in &mut b[off..end] {
                    if *x != *byte {
                        changed = true;
                    }
                    *x = *byte;
                }
                if changed && f.extension().map(|x| x == "wal").unwrap_or(false) && fr.iter().any(|(o, l)| off < o + l && end > *o) {
                    must_report = true;
                }
                let _ = std::fs::write(&f, &b);
                desc.push(format!("overwrite {off}..{end} of {}", f.file_name().unwrap().to_string_lossy()));
            }
            Corr::OverwriteBytes(fp, op, data) => {
                let f = pick(*fp);
                let (mut b, fr) = recs_of(&f);
                if b.is_empty() || data.is_empty() {
                    continue;
                }
                let off = idx(*op, b.len());
                let end = (off + data.len().min(64)).min(b.len());
                let mut changed = false;
                for (x, y) in b[off..end].iter_mut().zip(data.iter()) {
                    if *x != *y {
                        changed = true;
                    }
                    *x = *y;
                }
                if changed && f.extension().map(|x| x == "wal").unwrap_or(false) && fr.iter().any(|(o, l)| off < o + l && end > *o) {
                    must_report = true;
                }
                let _ = std::fs::write(&f, &b);
                desc.push(format!("overwrite {off}..{end} of {} with given bytes", f.file_name().unwrap().to_string_lossy()));
            }
            Corr::Truncate(fp, op) => {
                let f = pick(*fp);
                let (b, fr) = recs_of(&f);
                if b.is_empty() {
                    continue;
                }
                let cut = idx(*op, b.len());
                let is_wal = f.extension().map(|x| x == "wal").unwrap_or(false);
                if is_wal {
                    // a cut inside a record must be reported; a cut on a boundary is indistinguishable from a shorter log
                    if fr.iter().any(|(o, l)| cut > *o && cut < o + l) {
                        must_report = true;
                    }
                } else if cut > 0 {
                    must_report = true;
                }
                let _ = std::fs::write(&f, &b[..cut]);
                desc.push(format!("truncate {} at {cut}", f.file_name().unwrap().to_string_lossy()));
            }
            Corr::Append(fp, len, byte) => {
                let f = pick(*fp);
                let (mut b, _) = recs_of(&f);
                let n = (*len).clamp(1, 64) as usize;
                // garbage that cannot be mistaken for a well-formed empty region
                b.extend(std::iter::repeat(*byte | 0x80).take(n));
                must_report = true;
                let _ = std::fs::write(&f, &b);
                desc.push(format!("append {n} bytes to {}", f.file_name().unwrap().to_string_lossy()));
            }
            Corr::DuplicateRecord(fp, rp) => {
                let f = pick(*fp);
                let (mut b, fr) = recs_of(&f);
                if fr.is_empty() {
                    continue;
                }
                let (o, l) = fr[idx(*rp, fr.len())];
                let rec = b[o..o + l].to_vec();
                b.extend(rec);
                let _ = std::fs::write(&f, &b);
                desc.push(format!("duplicate record@{o} of {} at its end", f.file_name().unwrap().to_string_lossy()));
            }
            Corr::MoveRecord(fp, a, bpos) => {
                let f = pick(*fp);
                let (b, fr) = recs_of(&f);
                if fr.len() < 2 {
                    continue;
                }
                let i = idx(*a, fr.len());
                let j = idx(*bpos, fr.len());
                let mut order: Vec<usize> = (0..fr.len()).collect();
                let r = order.remove(i);
                order.insert(j.min(order.len()), r);
                let mut nb = Vec::new();
                for k in order {
                    let (o, l) = fr[k];
                    nb.extend_from_slice(&b[o..o + l]);
                }
                // keep whatever followed the framed prefix
                let framed_end = fr.last().map(|(o, l)| o + l).unwrap_or(0);
                nb.extend_from_slice(&b[framed_end..]);
                let _ = std::fs::write(&f, &nb);
                desc.push(format!("move record {i}→{j} in {}", f.file_name().unwrap().to_string_lossy()));
            }
            Corr::Transplant(fp, rp) => {
                let wals: Vec<PathBuf> = files.iter().filter(|p| p.extension().map(|x| x == "wal").unwrap_or(false)).cloned().collect();
                if wals.is_empty() || other_recs.is_empty() {
                    continue;
                }
                let f = wals[idx(*fp, wals.len())].clone();
                let r = &other_recs[idx(*rp, other_recs.len())];
                let ob = std::fs::read(other_dir.join(&r.file)).unwrap_or_default();
                let mut b = std::fs::read(&f).unwrap_or_default();
                b.extend_from_slice(&ob[r.offset..r.offset + r.len]);
                must_report = true;
                let _ = std::fs::write(&f, &b);
                desc.push(format!("transplant a record of another store ({}={}) into {}", r.entry.key, r.entry.value.is_some(), f.file_name().unwrap().to_string_lossy()));
            }
            Corr::RewriteLength(fp, rp, how) => {
                let f = pick(*fp);
                let (mut b, fr) = recs_of(&f);
                if fr.is_empty() {
                    continue;
                }
                let (o, l) = fr[idx(*rp, fr.len())];
                let body = (l - 4) as u32;
                let nl: u32 = match how % 5 {
                    0 => 0,
                    1 => body.saturating_sub(1),
                    2 => body + 1,
                    3 => 0x7fff_ffff,
                    _ => 0xffff_ffff,
                };
                if nl != body {
                    must_report = true;
                }
                b[o..o + 4].copy_from_slice(&nl.to_le_bytes());
                let _ = std::fs::write(&f, &b);
                desc.push(format!("length prefix of record@{o} in {} := {nl:#x}", f.file_name().unwrap().to_string_lossy()));
            }
            Corr::Resplit(fp, rp) => {
                let f = pick(*fp);
                let (b, fr) = recs_of(&f);
                if fr.is_empty() {
                    continue;
                }
                let (o, l) = fr[idx(*rp, fr.len())];
                let Ok(mut e) = postcard::from_bytes::<WalEntry>(&b[o + 4..o + l]) else { continue };
                let Some(v) = e.value.clone() else { continue };
                // move the last key byte to the front of the value (tag kept)
                let Some(last) = e.key.pop() else { continue };
                let mut nv = vec![last as u8];
                nv.extend(v);
                e.value = Some(nv);
                let Ok(enc) = postcard::to_stdvec(&e) else { continue };
                let mut nb = b[..o].to_vec();
                nb.extend_from_slice(&(enc.len() as u32).to_le_bytes());
                nb.extend_from_slice(&enc);
                nb.extend_from_slice(&b[o + l..]);
                must_report = true;
                let _ = std::fs::write(&f, &nb);
                desc.push(format!("re-split key/value of record@{o} in {}", f.file_name().unwrap().to_string_lossy()));
            }
            Corr::DeleteFile(fp) => {
                let f = pick(*fp);
                let _ = std::fs::remove_file(&f);
                desc.push(format!("delete {}", f.file_name().unwrap().to_string_lossy()));
            }
            Corr::SnapHeader(fp, off, byte) => {
                let snaps: Vec<PathBuf> = files.iter().filter(|p| p.extension().map(|x| x == "snap").unwrap_or(false)).cloned().collect();
                if snaps.is_empty() {
                    continue;
                }
                let f = snaps[idx(*fp, snaps.len())].clone();
                let mut b = std::fs::read(&f).unwrap_or_default();
                if b.len() > 4 {
                    let n = u32::from_le_bytes(b[..4].try_into().unwrap()) as usize;
                    if n > 32 && 4 + n <= b.len() {
                        let o = 4 + (*off as usize % (n - 32));
                        b[o] = *byte;
                        let _ = std::fs::write(&f, &b);
                        desc.push(format!("snapshot header byte {o} of {} := {byte:#04x}", f.file_name().unwrap().to_string_lossy()));
                    }
                }
            }
            Corr::SnapHeaderField(fp, field, pickv) => {
                let snaps: Vec<PathBuf> = files.iter().filter(|p| p.extension().map(|x| x == "snap").unwrap_or(false)).cloned().collect();
                if snaps.is_empty() {
                    continue;
                }
                let f = snaps[idx(*fp, snaps.len())].clone();
                let b = std::fs::read(&f).unwrap_or_default();
                if b.len() > 4 {
                    let n = u32::from_le_bytes(b[..4].try_into().unwrap()) as usize;
                    if 4 + n <= b.len() {
                        if let Ok(mut h) = postcard::from_bytes::<SnapshotHeader>(&b[4..4 + n]) {
                            let pick_u64 = |old: u64| -> u64 {
                                match pickv % 9 {
                                    0 => 0,
                                    1 => old.wrapping_add(1),
                                    2 => old.wrapping_sub(1),
                                    3 => 1 << 20,
                                    4 => 1 << 30,
                                    5 => 1 << 32,
                                    6 => 1 << 40,
                                    7 => u64::MAX / 2,
                                    _ => u64::MAX,
                                }
                            };
                            let name = match field % 5 {
                                0 => {
                                    h.version = pick_u64(h.version as u64) as u8;
                                    "version"
                                }
                                1 => {
                                    h.created_at = pick_u64(h.created_at);
                                    "created_at"
                                }
                                2 => {
                                    h.last_transaction_id = pick_u64(h.last_transaction_id);
                                    "last_transaction_id"
                                }
                                3 => {
                                    h.entry_count = pick_u64(h.entry_count);
                                    "entry_count"
                                }
                                _ => {
                                    h.total_size = pick_u64(h.total_size);
                                    "total_size"
                                }
                            };
                            if let Ok(enc) = postcard::to_stdvec(&h) {
                                let mut nb = (enc.len() as u32).to_le_bytes().to_vec();
                                nb.extend_from_slice(&enc);
                                nb.extend_from_slice(&b[4 + n..]);
                                let _ = std::fs::write(&f, &nb);
                                desc.push(format!("snapshot header field {name} of {} rewritten (value pick {})", f.file_name().unwrap().to_string_lossy(), pickv % 9));
                            }
                        }
                    }
                }
            }
            Corr::KeyFile(bit) => {
                let f = dir.join("state.key");
                if let Ok(mut b) = std::fs::read(&f) {
                    if !b.is_empty() {
                        let i = idx(*bit, b.len() * 8);
                        b[i / 8] ^= 1 << (i % 8);
                        let _ = std::fs::write(&f, &b);
                        desc.push("flip a bit of state.key".to_string());
                    }
                }
            }
        }
    }
    Applied { must_report, hits_deciding_record: deciding, desc }
}

fn run_case(c: &Case) -> Verdict {
    let rt = tokio::runtime::Builder::new_current_thread().enable_all().build().unwrap();
    rt.block_on(async {
        let mut v = Verdict::new();
        let work = tempfile::tempdir().unwrap();
        let a = work.path().join("a");
        let b = work.path().join("b");
        std::fs::create_dir_all(&a).unwrap();
        std::fs::create_dir_all(&b).unwrap();
        let built = match build(&a, &c.build, c.rotation, false).await {
            Ok(x) => x,
            Err(e) => {
                v.fail(format!("{ID}/build/store-operation-failed"), e);
                return v;
            }
        };
        if let Err(e) = build(&b, &c.other, c.rotation, true).await {
            v.fail(format!("{ID}/build/store-operation-failed"), e);
            return v;
        }
        let orig = originals(&a);
        // sanity of the reference itself: on the undamaged directory it must reproduce the final state
        let snap_ids = snapshot_ids(&a);
        if reference(&a, &orig, None) != built.final_state || reference(&a, &orig, Some(&snap_ids)) != built.final_state {
            v.class("reference_disagrees_on_clean_directory(case skipped)");
            return v;
        }
        let dmg = work.path().join("damaged");
        copy_dir(&a, &dmg);
        let key_touched = c.script.iter().any(|x| matches!(x, Corr::KeyFile(_)));
        let applied = apply_script(&dmg, &b, &c.script, &built.final_state);
        let total_size: u64 = data_files(&dmg).iter().filter_map(|p| std::fs::metadata(p).ok()).map(|m| m.len()).sum();
        let want = reference(&dmg, &orig, None);
        let want_skipping = reference(&dmg, &orig, Some(&snap_ids));

        // reopen the damaged directory (measuring heap growth on this thread)
        alloc_begin();
        let opened = PersistentStateManager::<Val>::new(config(&dmg, 0)).await;
        let (peak, biggest) = alloc_end();
        let m = match opened {
            Ok(m) => m,
            Err(e) => {
                v.fail(format!("{ID}/recover/reopen-of-damaged-directory-failed"), format!("{e}; script {:?}", applied.desc));
                return v;
            }
        };
        let bound = 64 * total_size as usize + (1 << 20);
        if peak > bound {
            v.fail(format!("{ID}/recover/memory-not-proportional-to-file-size"), format!("peak heap growth {peak} bytes (largest single request {biggest}) for {total_size} bytes of files; bound {bound}; script {:?}", applied.desc));
        }
        let got = m.get_all().unwrap_or_default();
        let stats = m.recovery_stats().ok();
        // 1. genuineness
        for (k, val) in &got {
            let genuine = built.ever.get(k).map(|s| s.contains(val)).unwrap_or(false);
            if !genuine {
                let foreign = val.0 >= 1_000_000;
                v.fail(format!("{ID}/recover/{}", if foreign { "record-of-another-store-replayed" } else { "invented-or-moved-value-recovered" }), format!("{k} = ({}, {} bytes) was never written for that key; script {:?}", val.0, val.1.len(), applied.desc));
                break;
            }
        }
        // 2. agreement with the reference replay (unless the key file was damaged: then nothing verifies)
        if !key_touched && got != want && got != want_skipping {
            let missing: Vec<&String> = want.keys().filter(|k| got.get(*k) != want.get(*k)).collect();
            let extra: Vec<&String> = got.keys().filter(|k| !want.contains_key(*k)).collect();
            let kind = if !extra.is_empty() || missing.iter().any(|k| got.contains_key(*k)) { "state-differs-from-replay-of-intact-records" } else { "intact-records-not-honoured" };
            v.fail(format!("{ID}/recover/{kind}"), format!("recovered {:?} ; intact records give {:?} ; script {:?}", show(&got), show(&want), applied.desc));
        }
        // 3. damage is reported
        // (for multi-step scripts a later step may remove the damaged bytes again, so the reporting clause is
        // asserted for single-step scripts only)
        if applied.must_report && !key_touched && c.script.len() == 1 {
            let reported = stats.as_ref().map(|s| !s.corruption_events.is_empty() || s.entries_failed > 0 || s.data_loss_detected).unwrap_or(false);
            let integrity = m.verify_integrity().await.ok();
            let reported2 = integrity.map(|r| r.corrupted_snapshots > 0 || r.corrupted_wal_files > 0).unwrap_or(false);
            if !(reported || reported2) {
                v.fail(format!("{ID}/recovery_stats/damage-not-reported"), format!("script {:?} ; stats {:?}", applied.desc, stats.as_ref().map(|s| (s.entries_recovered, s.entries_failed, s.corruption_events.len(), s.data_loss_detected))));
            }
        }
        // 4. recovery must not itself destroy what it honoured: closing and reopening once more (nothing was written
        //    in between) yields the same state again
        drop(m);
        match PersistentStateManager::<Val>::new(config(&dmg, 0)).await {
            Ok(m2) => {
                let got2 = m2.get_all().unwrap_or_default();
                if got2 != got {
                    v.fail(format!("{ID}/recover/second-recovery-differs-from-the-first"), format!("first recovery {:?} ; second recovery of the same directory {:?} ; script {:?}", show(&got), show(&got2), applied.desc));
                }
            }
            Err(e) => v.fail(format!("{ID}/recover/second-reopen-of-damaged-directory-failed"), format!("{e}; script {:?}", applied.desc)),
        }
        v.nt(applied.hits_deciding_record || (got != built.final_state));
        for d in &c.script {
            v.class(match d {
                Corr::FlipBits(..) => "flip",
                Corr::Overwrite(..) => "overwrite",
                Corr::OverwriteBytes(..) => "overwrite_bytes",
                Corr::Truncate(..) => "truncate",
                Corr::Append(..) => "append",
                Corr::DuplicateRecord(..) => "duplicate",
                Corr::MoveRecord(..) => "move",
                Corr::Transplant(..) => "transplant",
                Corr::RewriteLength(..) => "length",
                Corr::Resplit(..) => "resplit",
                Corr::DeleteFile(..) => "delete_file",
                Corr::KeyFile(..) => "key_file",
                Corr::SnapHeader(..) => "snapshot_header",
                Corr::SnapHeaderField(..) => "snapshot_header_field",
            });
        }
        if data_files(&a).iter().any(|p| p.extension().map(|x| x == "snap").unwrap_or(false)) {
            v.class("with_snapshot");
        }
        if wal_files(&a).len() > 1 {
            v.class("with_rotated_log");
        }
        v
    })
}

fn show(s: &State) -> String {
    let mut k: Vec<_> = s.iter().map(|(k, v)| format!("{k}={}", v.0)).collect();
    k.sort();
    format!("{{{}}}", k.join(","))
}

fn build_op() -> impl Strategy<Value = BuildOp> {
    prop_oneof![
        10 => (0u8..6, any::<u8>()).prop_map(|(k, s)| BuildOp::Upsert(k, s)),
        2 => (0u8..6).prop_map(BuildOp::Delete),
        2 => prop::collection::vec((0u8..6, prop::option::weighted(0.8, any::<u8>())), 1..4).prop_map(BuildOp::Batch),
        1 => Just(BuildOp::Checkpoint),
    ]
}
fn corr() -> impl Strategy<Value = Corr> {
    prop_oneof![
        5 => (any::<u16>(), any::<u16>(), 1u8..=8, any::<u8>()).prop_map(|(f, o, n, s)| Corr::FlipBits(f, o, n, s)),
        2 => (any::<u16>(), any::<u16>(), 1u8..=16, any::<u8>()).prop_map(|(f, o, l, b)| Corr::Overwrite(f, o, l, b)),
        2 => (any::<u16>(), any::<u16>(), prop::collection::vec(any::<u8>(), 1..40)).prop_map(|(f, o, d)| Corr::OverwriteBytes(f, o, d)),
        3 => (any::<u16>(), any::<u16>()).prop_map(|(f, o)| Corr::Truncate(f, o)),
        2 => (any::<u16>(), 1u8..=64, any::<u8>()).prop_map(|(f, l, b)| Corr::Append(f, l, b)),
        2 => (any::<u16>(), any::<u16>()).prop_map(|(f, r)| Corr::DuplicateRecord(f, r)),
        1 => (any::<u16>(), any::<u16>(), any::<u16>()).prop_map(|(f, a, b)| Corr::MoveRecord(f, a, b)),
        3 => (any::<u16>(), any::<u16>()).prop_map(|(f, r)| Corr::Transplant(f, r)),
        3 => (any::<u16>(), any::<u16>(), 0u8..5).prop_map(|(f, r, h)| Corr::RewriteLength(f, r, h)),
        2 => (any::<u16>(), any::<u16>()).prop_map(|(f, r)| Corr::Resplit(f, r)),
        1 => any::<u16>().prop_map(Corr::DeleteFile),
        1 => any::<u16>().prop_map(Corr::KeyFile),
        3 => (any::<u16>(), any::<u8>(), prop_oneof![Just(0x7fu8), Just(0xffu8), Just(0u8), any::<u8>()]).prop_map(|(f, o, b)| Corr::SnapHeader(f, o, b)),
        3 => (any::<u16>(), 0u8..5, 0u8..9).prop_map(|(f, fl, p)| Corr::SnapHeaderField(f, fl, p)),
    ]
}

pub fn case() -> impl Strategy<Value = Case> {
    (prop_oneof![3 => 1u8..=9, 1 => Just(0u8)], prop::collection::vec(build_op(), 1..40), prop::collection::vec(build_op(), 1..12), prop_oneof![2 => prop::collection::vec(corr(), 1..=1), 1 => prop::collection::vec(corr(), 2..=3)]).prop_map(|(rotation, build, other, script)| Case { rotation, build, other, script })
}
// ---- byte decoder for the coverage-guided stage: same shapes and ranges as the strategies above ----------
fn build_dec(u: &mut Unstructured) -> arbitrary::Result<BuildOp> {
    Ok(match u.int_in_range(0u8..=14)? {
        0..=9 => BuildOp::Upsert(u.int_in_range(0u8..=5)?, u.arbitrary()?),
        10 | 11 => BuildOp::Delete(u.int_in_range(0u8..=5)?),
        12 | 13 => {
            let n = u.int_in_range(1usize..=3)?;
            let mut ch = Vec::new();
            for _ in 0..n {
                ch.push((u.int_in_range(0u8..=5)?, if u.ratio(4u8, 5u8)? { Some(u.arbitrary()?) } else { None }));
            }
            BuildOp::Batch(ch)
        }
        _ => BuildOp::Checkpoint,
    })
}
fn corr_dec(u: &mut Unstructured) -> arbitrary::Result<Corr> {
    Ok(match u.int_in_range(0u8..=13)? {
        0 => Corr::FlipBits(u.arbitrary()?, u.arbitrary()?, u.int_in_range(1u8..=8)?, u.arbitrary()?),
        1 => Corr::Overwrite(u.arbitrary()?, u.arbitrary()?, u.int_in_range(1u8..=16)?, u.arbitrary()?),
        2 => {
            let (f, o) = (u.arbitrary()?, u.arbitrary()?);
            let n = u.int_in_range(1usize..=64)?.min(u.len().max(1));
            let mut d = u.bytes(n.min(u.len()))?.to_vec();
            if d.is_empty() {
                d.push(0);
            }
            Corr::OverwriteBytes(f, o, d)
        }
        3 => Corr::Truncate(u.arbitrary()?, u.arbitrary()?),
        4 => Corr::Append(u.arbitrary()?, u.int_in_range(1u8..=64)?, u.arbitrary()?),
        5 => Corr::DuplicateRecord(u.arbitrary()?, u.arbitrary()?),
        6 => Corr::MoveRecord(u.arbitrary()?, u.arbitrary()?, u.arbitrary()?),
        7 => Corr::Transplant(u.arbitrary()?, u.arbitrary()?),
        8 => Corr::RewriteLength(u.arbitrary()?, u.arbitrary()?, u.int_in_range(0u8..=4)?),
        9 => Corr::Resplit(u.arbitrary()?, u.arbitrary()?),
        10 => Corr::DeleteFile(u.arbitrary()?),
        11 => Corr::KeyFile(u.arbitrary()?),
        12 => Corr::SnapHeader(u.arbitrary()?, u.arbitrary()?, u.arbitrary()?),
        _ => Corr::SnapHeaderField(u.arbitrary()?, u.int_in_range(0u8..=4)?, u.int_in_range(0u8..=8)?),
    })
}
pub fn decode(data: &[u8]) -> Option<Case> {
    let mut u = Unstructured::new(data);
    let r: arbitrary::Result<Case> = (|| {
        let rotation = if u.ratio(3u8, 4u8)? { u.int_in_range(1u8..=9)? } else { 0 };
        // the damage script first, so that the fuzzer's first bytes steer it
        let ns = if u.ratio(2u8, 3u8)? { 1 } else { u.int_in_range(2usize..=3)? };
        let mut script = Vec::new();
        for _ in 0..ns {
            script.push(corr_dec(&mut u)?);
        }
        let (nb, no) = (u.int_in_range(1usize..=39)?, u.int_in_range(1usize..=11)?);
        let mut build = Vec::new();
        for _ in 0..nb {
            build.push(build_dec(&mut u)?);
        }
        let mut other = Vec::new();
        for _ in 0..no {
            other.push(build_dec(&mut u)?);
        }
        Ok(Case { rotation, build, other, script })
    })();
    r.ok()
}

pub fn check(c: &Case) -> Verdict {
    run_case(c)
}

pub fn run(run: &Run) {
    // a single allocation request that would abort the process is decided for the case in flight (engine::absurd_fatal)
    TRACK_INFLIGHT.store(true, std::sync::atomic::Ordering::Relaxed);
    run.assume("damage that leaves only complete, genuine records (duplicating or moving a whole record, cutting a log exactly on a record boundary, deleting a whole file) need not be reported - it is indistinguishable from a shorter or reordered genuine log; the recovered values must still be genuine and agree with the reference replay");
    run.assume("reference replay: a framed record counts iff it is field-for-field identical (incl. its tag) to a record this store wrote; batches need their commit marker; the newest snapshot whose stored checksum matches its data is the base");
    run.set_rule("corrupt", "cleanly closed directory from a generated history (rotation threshold 3..11, snapshots in part of the cases) + a second store for transplants, then 1..3 corruptions (bit flips, overwrite, truncate, append, duplicate/move/transplant a record, length-prefix rewrite 0/len±1/0x7fffffff/0xffffffff, key/value re-split keeping the tag, file deletion, key-file damage); non-trivial = the corruption hits a record that decides the final value of a key, or the recovered state differs from the undamaged final state");
    let sh = shards_for(run.tier);
    run.max_shrink.store(400, std::sync::atomic::Ordering::Relaxed);
    run.prop_f("corrupt", run.tier.pick(4000, 100000), sh, case, run_case);
}

pub fn replay(run: &Run, sub: &str, case: &Value) -> Option<bool> {
    match sub {
        "corrupt" => Some(run.eval_case("replay/corrupt", &from_value::<Case>(case)?, &run_case)),
        _ => None,
    }
}
