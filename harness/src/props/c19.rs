//! C19 — addresses survive every textual round trip the library itself performs.
//! Oracle: round trips (four-word form, Display/FromStr, serde JSON + postcard, 6-byte prefix),
//! cross-component agreement (routing-table gate applied alike to every library rendering),
//! malformed input ⇒ Err / never a different address / never a panic.
use crate::engine::*;
use proptest::prelude::*;
use saorsa_core::address::NetworkAddress;
use saorsa_core::bootstrap::ContactEntry;
use saorsa_core::dht::core_engine::{DhtCoreEngine, NodeCapacity, NodeId, NodeInfo};
use saorsa_core::identity::FourWordAddress;
use serde::{Deserialize, Serialize};
use serde_json::Value;
use std::net::{IpAddr, Ipv4Addr, Ipv6Addr, SocketAddr};
use std::time::SystemTime;

const ID: &str = "C19";

#[derive(Debug, Clone, Serialize, Deserialize, PartialEq, Eq, Hash)]
pub enum Addr {
    V4([u8; 4], u16),
    V6([u16; 8], u16),
}
impl Addr {
    fn sa(&self) -> SocketAddr {
        match self {
            Addr::V4(o, p) => SocketAddr::new(IpAddr::V4(Ipv4Addr::new(o[0], o[1], o[2], o[3])), *p),
            Addr::V6(s, p) => SocketAddr::new(IpAddr::V6(Ipv6Addr::new(s[0], s[1], s[2], s[3], s[4], s[5], s[6], s[7])), *p),
        }
    }
}

#[derive(Debug, Clone, Serialize, Deserialize)]
pub enum Variant {
    AsIs,
    Spaces,
    Upper,
    Mixed,
    Padded,
    DoubleSep,
}
fn vary(w: &str, v: &Variant) -> String {
    match v {
        Variant::AsIs => w.to_string(),
        Variant::Spaces => w.replace('-', " "),
        Variant::Upper => w.to_uppercase(),
        Variant::Mixed => w.chars().enumerate().map(|(i, c)| if i % 2 == 0 { c.to_ascii_uppercase() } else { c }).collect(),
        Variant::Padded => format!("  {w} "),
        Variant::DoubleSep => w.replacen('-', "--", 1),
    }
}

#[derive(Debug, Clone, Serialize, Deserialize)]
pub struct Case {
    addr: Addr,
    variant: Variant,
}

fn fam(sa: &SocketAddr) -> &'static str {
    if sa.is_ipv4() {
        "ipv4"
    } else {
        "ipv6"
    }
}

fn check_addr(c: &Case) -> Verdict {
    let mut v = Verdict::new();
    let sa = c.addr.sa();
    let f = fam(&sa);
    let a = NetworkAddress::new(sa);
    v.check(a.socket_addr() == sa, &format!("{ID}/NetworkAddress::new/socket-address-changed"), || format!("{sa} → {}", a.socket_addr()));
    // 1. four-word round trip (and variants of the published form)
    match a.four_words() {
        None => v.class(format!("{f}_no_word_form")),
        Some(w) => {
            v.class(format!("{f}_word_form"));
            match NetworkAddress::from_four_words(w) {
                Ok(b) => v.check(b.socket_addr() == sa, &format!("{ID}/from_four_words/{f}-published-words-decode-to-a-different-address"), || format!("{sa} → '{w}' → {}", b.socket_addr())),
                Err(e) => v.fail(format!("{ID}/from_four_words/{f}-published-words-do-not-decode"), format!("{sa} → '{w}' → {e}")),
            }
            if !matches!(c.variant, Variant::AsIs) {
                let w2 = vary(w, &c.variant);
                // a variant either decodes to the same address or is rejected
                if let Ok(b) = NetworkAddress::from_four_words(&w2) {
                    v.check(b.socket_addr() == sa, &format!("{ID}/from_four_words/{f}-variant-decodes-to-a-different-address"), || format!("{sa}: '{w2}' → {}", b.socket_addr()));
                }
                if let Ok(b) = w2.parse::<NetworkAddress>() {
                    v.check(b.socket_addr() == sa, &format!("{ID}/FromStr/{f}-variant-parses-to-a-different-address"), || format!("{sa}: '{w2}' → {}", b.socket_addr()));
                }
            }
            // words alone through FromStr
            match w.parse::<NetworkAddress>() {
                Ok(b) => v.check(b.socket_addr() == sa, &format!("{ID}/FromStr/{f}-published-words-parse-to-a-different-address"), || format!("'{w}' → {}", b.socket_addr())),
                Err(e) => v.fail(format!("{ID}/FromStr/{f}-published-words-do-not-parse"), format!("'{w}': {e}")),
            }
        }
    }
    // 2. the library's own textual rendering parses back
    let shown = a.to_string();
    match shown.parse::<NetworkAddress>() {
        Ok(b) => v.check(b.socket_addr() == sa, &format!("{ID}/FromStr/{f}-own-rendering-parses-to-a-different-address"), || format!("'{shown}' → {}", b.socket_addr())),
        Err(e) => v.fail(format!("{ID}/FromStr/{f}-own-rendering-does-not-parse"), format!("'{shown}': {e}")),
    }
    // bare socket form
    match sa.to_string().parse::<NetworkAddress>() {
        Ok(b) => v.check(b.socket_addr() == sa, &format!("{ID}/FromStr/socket-form-parses-to-a-different-address"), || format!("{sa}")),
        Err(e) => v.fail(format!("{ID}/FromStr/socket-form-does-not-parse"), format!("{sa}: {e}")),
    }
    // 3. serialise / deserialise
    match serde_json::to_string(&a).ok().and_then(|s| serde_json::from_str::<NetworkAddress>(&s).ok()) {
        Some(b) => v.check(b == a, &format!("{ID}/serde/json-round-trip-differs"), || format!("{sa}")),
        None => v.fail(format!("{ID}/serde/json-round-trip-fails"), format!("{sa}")),
    }
    match postcard::to_stdvec(&a).ok().and_then(|s| postcard::from_bytes::<NetworkAddress>(&s).ok()) {
        Some(b) => v.check(b == a, &format!("{ID}/serde/postcard-round-trip-differs"), || format!("{sa}")),
        None => v.fail(format!("{ID}/serde/postcard-round-trip-fails"), format!("{sa}")),
    }
    let ce = ContactEntry::new("peer".to_string(), vec![sa]);
    match serde_json::to_string(&ce).ok().and_then(|s| serde_json::from_str::<ContactEntry>(&s).ok()) {
        Some(b) => v.check(b.addresses == vec![sa], &format!("{ID}/ContactEntry/round-trip-changes-address"), || format!("{sa} → {:?}", b.addresses)),
        None => v.fail(format!("{ID}/ContactEntry/round-trip-fails"), format!("{sa}")),
    }
    // 4. 6-byte prefix form (IPv4 + port)
    if let Addr::V4(o, p) = &c.addr {
        let bytes = [o[0], o[1], o[2], o[3], (p >> 8) as u8, *p as u8];
        if let Ok(fw) = FourWordAddress::from_bytes(&bytes) {
            match fw.to_hash_prefix() {
                Ok(back) => v.check(back == bytes, &format!("{ID}/FourWordAddress/prefix-round-trip-differs"), || format!("{bytes:?} → '{}' → {back:?}", fw.as_str())),
                Err(e) => v.fail(format!("{ID}/FourWordAddress/own-words-do-not-decode"), format!("{bytes:?} → '{}': {e}", fw.as_str())),
            }
            // the same words through the library's other decoders and parsers
            match saorsa_core::identity::four_words::WordEncoder::decode(&fw) {
                Ok(back) => v.check(back == bytes, &format!("{ID}/WordEncoder::decode/own-words-decode-to-different-bytes"), || format!("{bytes:?} → '{}' → {back:?}", fw.as_str())),
                Err(e) => v.fail(format!("{ID}/WordEncoder::decode/own-words-do-not-decode"), format!("'{}': {e}", fw.as_str())),
            }
            match FourWordAddress::parse_str(fw.as_str()) {
                Ok(p) => v.check(p == fw, &format!("{ID}/FourWordAddress::parse_str/own-rendering-parses-to-something-else"), || format!("'{}' → '{}'", fw.as_str(), p.as_str())),
                Err(e) => v.fail(format!("{ID}/FourWordAddress::parse_str/own-rendering-does-not-parse"), format!("'{}': {e}", fw.as_str())),
            }
            let ws = fw.words();
            if ws.len() == 4 {
                let arr = [ws[0].clone(), ws[1].clone(), ws[2].clone(), ws[3].clone()];
                v.check(saorsa_core::fwid::fw_check(arr), &format!("{ID}/fwid::fw_check/rejects-words-the-library-published"), || format!("'{}'", fw.as_str()));
            } else {
                v.fail(format!("{ID}/FourWordAddress::words/not-four-words"), format!("'{}'", fw.as_str()));
            }
            // handed to the other address component: the same socket address or an error, never another address
            if let Ok(b) = NetworkAddress::from_four_words(fw.as_str()) {
                v.check(b.socket_addr() == sa, &format!("{ID}/from_four_words/words-of-FourWordAddress-decode-to-a-different-address"), || format!("{sa} → '{}' → {}", fw.as_str(), b.socket_addr()));
            }
            if let Some(w) = a.four_words() {
                if let Ok(p) = FourWordAddress::parse_str(w) {
                    if let Ok(back) = p.to_hash_prefix() {
                        v.check(back == bytes, &format!("{ID}/FourWordAddress/words-of-NetworkAddress-decode-to-different-bytes"), || format!("{sa} → '{w}' → {back:?}"));
                    }
                }
            }
        }
    }
    let boundary = match &c.addr {
        Addr::V4(o, p) => o.iter().any(|x| [0u8, 1, 127, 128, 254, 255].contains(x)) || [0u16, 1, 1023, 1024, 65534, 65535].contains(p),
        Addr::V6(..) => true,
    };
    v.nt(boundary || !matches!(c.variant, Variant::AsIs));
    v
}

// ---- component hand-off: the routing-table gate sees the same address in every library rendering
#[derive(Debug, Clone, Serialize, Deserialize)]
pub struct Handoff {
    addr: Addr,
    first_display: bool,
    second_display: bool,
    second_port: u16,
    #[serde(default)]
    second_other_ip: bool,
}
fn run_handoff(c: &Handoff) -> Verdict {
    paused_rt().block_on(async {
        let mut v = Verdict::new();
        let sa = c.addr.sa();
        let other = match sa.ip() {
            IpAddr::V4(a) => IpAddr::V4(Ipv4Addr::new(a.octets()[0] ^ 0x40, a.octets()[1].wrapping_add(7), a.octets()[2], a.octets()[3])),
            IpAddr::V6(a) => {
                let mut s = a.segments();
                s[1] ^= 0x0101;
                s[3] = s[3].wrapping_add(1);
                IpAddr::V6(Ipv6Addr::new(s[0], s[1], s[2], s[3], s[4], s[5], s[6], s[7]))
            }
        };
        let sb = SocketAddr::new(if c.second_other_ip { other } else { sa.ip() }, c.second_port);
        let rend = |s: SocketAddr, display: bool| if display { NetworkAddress::new(s).to_string() } else { s.to_string() };
        let mut eng = DhtCoreEngine::verif_new_log_only(NodeId::from_bytes([0u8; 32])).expect("engine");
        let mk = |i: u8, address: String| NodeInfo { id: NodeId::from_bytes(*blake3::hash(&[i, 0x19]).as_bytes()), address, last_seen: SystemTime::now(), capacity: NodeCapacity::default() };
        let r1 = eng.add_node(mk(1, rend(sa, c.first_display))).await;
        let r2 = eng.add_node(mk(2, rend(sb, c.second_display))).await;
        // reference: the same two nodes with bare socket strings on a fresh engine
        let mut refe = DhtCoreEngine::verif_new_log_only(NodeId::from_bytes([0u8; 32])).expect("engine");
        let q1 = refe.add_node(mk(1, sa.to_string())).await;
        let q2 = refe.add_node(mk(2, sb.to_string())).await;
        if r1.is_ok() != q1.is_ok() || r2.is_ok() != q2.is_ok() {
            v.fail(
                format!("{ID}/DhtCoreEngine::add_node/library-rendered-address-gated-differently-from-socket-form"),
                format!("'{}' then '{}': admitted ({}, {}); as plain socket strings ({}, {})", rend(sa, c.first_display), rend(sb, c.second_display), r1.is_ok(), r2.is_ok(), q1.is_ok(), q2.is_ok()),
            );
        }
        v.nt(c.first_display || c.second_display);
        v.class(if q2.is_ok() { "second_admitted" } else { "second_refused_by_gate" });
        v
    })
}

// ---- component hand-off over the network: an address travels  transport peer table → DhtNetworkManager peer
// map (NetworkAddress) → its Display rendering in a FIND_NODE reply → the requester's dial.  Real nodes on the
// in-memory network; the third node (or the node a lying peer names) sits at the generated address.
#[derive(Debug, Clone, Serialize, Deserialize)]
pub struct NetHandoff {
    addr: Addr,
    id_seed: u8,
    /// None: a real relay node A (knows B) produces the reply; Some(r): a stub names B with rendering r
    /// 0 = bare socket form, 1 = library Display form, 2 = Display form cut short, 3 = socket form + garbage suffix
    liar_rendering: Option<u8>,
    cut: u16,
}
fn run_net_handoff(c: &NetHandoff) -> Verdict {
    use crate::memnet::*;
    let pan0 = panic_count();
    let mut v = paused_rt().block_on(async {
        let mut v = Verdict::new();
        let t_req = std::time::Duration::from_secs(2);
        let sb = c.addr.sa();
        let hub = Hub::new(c.id_seed as u64, 0);
        let tid = |i: u8| *blake3::hash(&[c.id_seed, i, 0x19, 0x01]).as_bytes();
        let (ra, aa) = (node_addr(0), node_addr(1));
        if sb == ra || sb == aa {
            v.class("address_collides_with_fixture");
            return v;
        }
        let r = match add_node(&hub, tid(0), ra, None, t_req, 8).await {
            Ok(x) => x,
            Err(e) => {
                v.fail(format!("{ID}/harness/node-construction-failed"), e);
                return v;
            }
        };
        let b = match add_node(&hub, tid(2), sb, None, t_req, 8).await {
            Ok(x) => x,
            Err(e) => {
                v.fail(format!("{ID}/harness/node-construction-failed"), e);
                return v;
            }
        };
        let mut relay = None;
        let mut allowed: Vec<SocketAddr> = vec![sb];
        let mut must_dial = true;
        let rendering;
        match c.liar_rendering {
            None => {
                let a = match add_node(&hub, tid(1), aa, None, t_req, 8).await {
                    Ok(x) => x,
                    Err(e) => {
                        v.fail(format!("{ID}/harness/node-construction-failed"), e);
                        return v;
                    }
                };
                // A learns B's address the way a transport reports it (socket form), R knows only A
                let _ = a.th.connect_peer(&sb.to_string()).await;
                let _ = r.th.connect_peer(&aa.to_string()).await;
                allowed.push(aa);
                rendering = "relay".to_string();
                relay = Some(a);
                v.class("relay_node_reply");
            }
            Some(k) => {
                let shown = NetworkAddress::new(sb).to_string();
                let s = match k % 4 {
                    0 => sb.to_string(),
                    1 => shown.clone(),
                    2 => {
                        let mut e = idx(c.cut, shown.len().max(1)).max(1).min(shown.len());
                        while !shown.is_char_boundary(e) {
                            e -= 1;
                        }
                        must_dial = e == shown.len();
                        shown[..e].to_string()
                    }
                    _ => {
                        must_dial = false;
                        format!("{sb} (not four words at all)")
                    }
                };
                if let Some(sp) = s.split(" (").next().and_then(|x| x.trim().parse::<SocketAddr>().ok()) {
                    // what the text actually spells (a cut inside the digits spells a shorter address)
                    allowed.push(sp);
                }
                let sid = tid(7);
                let saddr = node_addr(9);
                add_stub(&hub, sid, saddr, StubScript { reply_nodes: vec![saorsa_core::dht_network_manager::DHTNode { peer_id: b.tid.clone(), address: s.clone(), distance: None, reliability: 1.0, cached_dht_key: None }], ack_put: true, value: None, wrong_id: false, raw_result: None });
                let _ = r.th.connect_peer(&saddr.to_string()).await;
                allowed.push(saddr);
                rendering = s;
                v.class(["liar_socket_form", "liar_display_form", "liar_cut_rendering", "liar_garbage_suffix"][(k % 4) as usize]);
            }
        }
        settle(50).await;
        hub.clear_trace();
        let key = dht_key_of(&b.tid);
        let res = tokio::time::timeout(t_req * 50, r.mgr.find_closest_nodes(&key, 8)).await;
        let trace = hub.trace();
        let unspecified = sb.ip().is_unspecified();
        let mut dialled_b = false;
        for e in &trace {
            if let Ev::Dial { from, addr, .. } = e {
                if *from != r.tid {
                    continue;
                }
                if *addr == sb {
                    dialled_b = true;
                }
                // a wildcard is normalised to loopback by connect_peer; nothing else may differ from the text
                let norm_ok = allowed.iter().any(|a| a == addr || (a.ip().is_unspecified() && addr.ip().is_loopback() && a.port() == addr.port()));
                if !norm_ok {
                    v.fail(format!("{ID}/dial_candidate/dialled-an-address-the-string-does-not-spell"), format!("'{rendering}' (node at {sb}) → dialled {addr}"));
                }
            }
        }
        if unspecified {
            v.class("unspecified_ip_(refused_by_design)");
        } else if must_dial {
            let connected = r.th.is_peer_connected(&b.tid).await;
            if !dialled_b || !connected {
                v.fail(format!("{ID}/dial_candidate/library-rendered-address-not-dialled"), format!("node at {sb} named as '{rendering}': dialled={dialled_b} connected={connected} lookup={:?}", res.as_ref().map(|r| r.as_ref().map(|n| n.len()).map_err(|e| e.to_string()))));
            } else if let Ok(Ok(nodes)) = &res {
                // B is the node whose key was looked up and it answers: it must be the first entry
                let first_is_b = nodes.first().map(|n| n.peer_id == b.tid).unwrap_or(false);
                v.check(first_is_b, &format!("{ID}/find_closest_nodes/node-reached-through-rendered-address-missing-from-result"), || format!("node at {sb}: result {:?}", nodes.iter().map(|n| n.peer_id[..8].to_string()).collect::<Vec<_>>()));
            }
        }
        v.nt(true);
        v.class(if sb.is_ipv4() { "ipv4_target" } else { "ipv6_target" });
        for nd in [Some(&r), Some(&b), relay.as_ref()].into_iter().flatten() {
            let _ = tokio::time::timeout(std::time::Duration::from_secs(600), nd.mgr.stop()).await;
        }
        v
    });
    attribute_task_panics(&mut v, ID, pan0);
    v
}

// ---- malformed strings ----------------------------------------------------
#[derive(Debug, Clone, Serialize, Deserialize)]
pub enum Bad {
    Random(String),
    /// a valid rendering cut after n chars
    Truncated(Addr, u16),
    /// the published words with one word dropped / one appended
    Words3(Addr),
    Words5(Addr),
    PortOverflow(Addr, u32),
    OpenParen(Addr),
    Garbage(Addr, String),
}
fn run_bad(b: &Bad) -> Verdict {
    let mut v = Verdict::new();
    let (s, reference): (String, Option<SocketAddr>) = match b {
        Bad::Random(s) => (s.clone(), None),
        Bad::Truncated(a, n) => {
            let full = NetworkAddress::new(a.sa()).to_string();
            let cut = idx(*n, full.len().max(1));
            let mut e = cut.max(1).min(full.len());
            while !full.is_char_boundary(e) {
                e -= 1;
            }
            (full[..e].to_string(), Some(a.sa()))
        }
        Bad::Words3(a) => {
            let w = NetworkAddress::new(a.sa()).four_words().map(|w| w.to_string()).unwrap_or_else(|| "a-b-c-d".into());
            let parts: Vec<&str> = w.split('-').collect();
            (parts[..parts.len().saturating_sub(1)].join("-"), None)
        }
        Bad::Words5(a) => {
            let w = NetworkAddress::new(a.sa()).four_words().map(|w| w.to_string()).unwrap_or_else(|| "a-b-c-d".into());
            (format!("{w}-zebra"), None)
        }
        Bad::PortOverflow(a, p) => (format!("{}:{}", a.sa().ip(), 65536 + (*p % 100_000)), None),
        Bad::OpenParen(a) => (format!("{} (", a.sa()), Some(a.sa())),
        Bad::Garbage(a, g) => (format!("{} ({})", a.sa(), g), Some(a.sa())),
    };
    let parsed = s.parse::<NetworkAddress>();
    let decoded = NetworkAddress::from_four_words(&s);
    if let (Ok(p), Some(r)) = (&parsed, reference) {
        // a string that starts like the rendering of `r` may be rejected or read as `r` (or, when cut inside
        // the number part, as the shorter address its text actually spells) - never as something unrelated
        let spelled = s.split(" (").next().and_then(|x| x.trim().parse::<SocketAddr>().ok());
        if p.socket_addr() != r && Some(p.socket_addr()) != spelled {
            v.fail(format!("{ID}/FromStr/malformed-string-parsed-as-a-different-address"), format!("'{s}' → {}", p.socket_addr()));
        }
    }
    if let Bad::PortOverflow(..) = b {
        v.check(parsed.is_err(), &format!("{ID}/FromStr/overflowing-port-accepted"), || format!("'{s}' → {:?}", parsed.as_ref().map(|p| p.socket_addr())));
    }
    let _ = decoded;
    v.nt(!matches!(b, Bad::Random(_)));
    v.class(match b {
        Bad::Random(_) => "random",
        Bad::Truncated(..) => "truncated",
        Bad::Words3(_) => "three_words",
        Bad::Words5(_) => "five_words",
        Bad::PortOverflow(..) => "port_overflow",
        Bad::OpenParen(_) => "open_paren",
        Bad::Garbage(..) => "garbage_suffix",
    });
    v
}

fn v4_any() -> impl Strategy<Value = Addr> {
    (any::<[u8; 4]>(), any::<u16>()).prop_map(|(o, p)| Addr::V4(o, p))
}
fn v6_classes() -> impl Strategy<Value = Addr> {
    let port = prop_oneof![Just(0u16), Just(80), Just(443), Just(65535), any::<u16>()];
    let ip = prop_oneof![
        Just([0u16, 0, 0, 0, 0, 0, 0, 1]),                                          // loopback
        Just([0u16; 8]),                                                            // unspecified
        (any::<u16>(), any::<u16>()).prop_map(|(a, b)| [0, 0, 0, 0, 0, 0xffff, a, b]), // mapped
        any::<[u16; 4]>().prop_map(|t| [0xfe80, 0, 0, 0, t[0], t[1], t[2], t[3]]),  // link-local
        any::<[u16; 2]>().prop_map(|t| [0xfd00, 0, 0, 0, 0, 0, t[0], t[1]]),        // ULA, zero-compressed
        any::<[u16; 7]>().prop_map(|t| [0x2001, t[0], t[1], t[2], t[3], t[4], t[5], t[6]]), // global
        any::<[u16; 2]>().prop_map(|t| [0x2001, 0x0db8, 0, 0, 0, 0, t[0], t[1]]),   // documentation prefix, compressed
        any::<[u16; 8]>(),
    ];
    (ip, port).prop_map(|(s, p)| Addr::V6(s, p))
}
fn grid_addr() -> impl Strategy<Value = Addr> {
    let o = || prop::sample::select(vec![0u8, 1, 127, 128, 254, 255]);
    (o(), o(), o(), o(), prop::sample::select(vec![0u16, 1, 1023, 1024, 65534, 65535])).prop_map(|(a, b, c, d, p)| Addr::V4([a, b, c, d], p))
}
fn variant() -> impl Strategy<Value = Variant> {
    prop_oneof![3 => Just(Variant::AsIs), 1 => Just(Variant::Spaces), 1 => Just(Variant::Upper), 1 => Just(Variant::Mixed), 1 => Just(Variant::Padded), 1 => Just(Variant::DoubleSep)]
}

pub fn addr_case() -> impl Strategy<Value = Case> {
    (prop_oneof![2 => v4_any(), 1 => v6_classes()], variant()).prop_map(|(addr, variant)| Case { addr, variant })
}
pub fn bad_case() -> impl Strategy<Value = Bad> {
    let any_addr = || prop_oneof![3 => v4_any(), 1 => v6_classes()];
    prop_oneof![
        3 => ".{0,60}".prop_map(Bad::Random),
        2 => "[0-9a-f:.\\[\\]() -]{0,60}".prop_map(Bad::Random),
        3 => (any_addr(), any::<u16>()).prop_map(|(a, n)| Bad::Truncated(a, n)),
        1 => any_addr().prop_map(Bad::Words3),
        1 => any_addr().prop_map(Bad::Words5),
        1 => (v4_any(), any::<u32>()).prop_map(|(a, p)| Bad::PortOverflow(a, p)),
        1 => any_addr().prop_map(Bad::OpenParen),
        1 => (any_addr(), "[a-z -]{0,20}").prop_map(|(a, g)| Bad::Garbage(a, g)),
    ]
}
// ---- byte decoders for the coverage-guided stage: same shapes and ranges as the strategies above ----------
fn addr_dec(u: &mut arbitrary::Unstructured) -> arbitrary::Result<Addr> {
    Ok(if u.ratio(2u8, 3u8)? {
        Addr::V4(u.arbitrary()?, u.arbitrary()?)
    } else {
        let port = match u.int_in_range(0u8..=4)? {
            0 => 0u16,
            1 => 80,
            2 => 443,
            3 => 65535,
            _ => u.arbitrary()?,
        };
        let t: [u16; 8] = u.arbitrary()?;
        let ip = match u.int_in_range(0u8..=7)? {
            0 => [0, 0, 0, 0, 0, 0, 0, 1],
            1 => [0; 8],
            2 => [0, 0, 0, 0, 0, 0xffff, t[0], t[1]],
            3 => [0xfe80, 0, 0, 0, t[0], t[1], t[2], t[3]],
            4 => [0xfd00, 0, 0, 0, 0, 0, t[0], t[1]],
            5 => [0x2001, t[0], t[1], t[2], t[3], t[4], t[5], t[6]],
            6 => [0x2001, 0x0db8, 0, 0, 0, 0, t[0], t[1]],
            _ => t,
        };
        Addr::V6(ip, port)
    })
}
pub fn decode_addr(data: &[u8]) -> Option<Case> {
    let mut u = arbitrary::Unstructured::new(data);
    let r: arbitrary::Result<Case> = (|| {
        let variant = match u.int_in_range(0u8..=7)? {
            0..=2 => Variant::AsIs,
            3 => Variant::Spaces,
            4 => Variant::Upper,
            5 => Variant::Mixed,
            6 => Variant::Padded,
            _ => Variant::DoubleSep,
        };
        Ok(Case { addr: addr_dec(&mut u)?, variant })
    })();
    r.ok()
}
pub fn decode_bad(data: &[u8]) -> Option<Bad> {
    let mut u = arbitrary::Unstructured::new(data);
    let r: arbitrary::Result<Bad> = (|| {
        Ok(match u.int_in_range(0u8..=7)? {
            0 | 1 => Bad::Truncated(addr_dec(&mut u)?, u.arbitrary()?),
            2 => Bad::Words3(addr_dec(&mut u)?),
            3 => Bad::Words5(addr_dec(&mut u)?),
            4 => Bad::PortOverflow(Addr::V4(u.arbitrary()?, u.arbitrary()?), u.arbitrary()?),
            5 => Bad::OpenParen(addr_dec(&mut u)?),
            6 => {
                let a = addr_dec(&mut u)?;
                let n = u.len().min(20);
                Bad::Garbage(a, u.bytes(n)?.iter().map(|b| (b"abcdefghijklmnopqrstuvwxyz -")[*b as usize % 28] as char).collect())
            }
            _ => {
                let n = u.len().min(200);
                Bad::Random(String::from_utf8_lossy(u.bytes(n)?).chars().take(200).collect())
            }
        })
    })();
    r.ok()
}

pub fn check_one(c: &Case) -> Verdict {
    check_addr(c)
}
pub fn check_bad(b: &Bad) -> Verdict {
    run_bad(b)
}

pub fn run(run: &Run) {
    run.assume("when no word form is published for an address the four-word clauses are vacuous for it (classified, counted); every other clause still applies");
    run.assume("separator/case variants of a published word form must decode to the same address or be rejected");
    run.set_rule("ipv4_grid", "exhaustive cross product of boundary octets {0,1,127,128,254,255}^4 × ports {0,1,1023,1024,65534,65535} (7776 addresses), all non-trivial");
    run.set_rule("ipv4_random", "seeded samples of the 2^48 IPv4 address:port space × separator/case variants; non-trivial = boundary octet/port or a non-canonical variant");
    run.set_rule("ipv6", "IPv6 loopback, unspecified, mapped, link-local, ULA, global, zero-compressed × ports incl. 0 and 65535 × variants; all non-trivial");
    run.set_rule("handoff", "two nodes on one IP handed to DhtCoreEngine::add_node in the socket form or the library's Display form: admission must match the plain-socket reference; non-trivial = at least one Display rendering");
    run.set_rule("malformed", "random UTF-8, truncated renderings, 3/5 words, overflowing ports, 'ip:port (', garbage suffixes: no panic, never a different address; non-trivial = shares a prefix with a valid rendering");
    let sh = shards_for(run.tier);
    // exhaustive boundary grid
    let oct = [0u8, 1, 127, 128, 254, 255];
    let ports = [0u16, 1, 1023, 1024, 65534, 65535];
    let mut grid = Vec::with_capacity(7776);
    for a in oct {
        for b in oct {
            for c in oct {
                for d in oct {
                    for p in ports {
                        grid.push(Case { addr: Addr::V4([a, b, c, d], p), variant: Variant::AsIs });
                    }
                }
            }
        }
    }
    let chunks: Vec<&[Case]> = grid.chunks(grid.len().div_ceil(sh as usize)).collect();
    std::thread::scope(|sc| {
        for ch in chunks {
            sc.spawn(move || {
                for c in ch {
                    run.eval_case("ipv4_grid", c, &check_addr);
                }
            });
        }
    });
    run.set_exhaustive("ipv4_grid");
    let c4 = (v4_any(), variant()).prop_map(|(addr, variant)| Case { addr, variant });
    run.prop("ipv4_random", run.tier.pick(600000, 40000000), sh, c4, check_addr);
    let c6 = (v6_classes(), variant()).prop_map(|(addr, variant)| Case { addr, variant });
    run.prop("ipv6", run.tier.pick(150000, 4000000), sh, c6, check_addr);
    let h = (prop_oneof![3 => v4_any(), 1 => v6_classes()], any::<bool>(), any::<bool>(), any::<u16>(), any::<bool>()).prop_map(|(addr, first_display, second_display, second_port, second_other_ip)| Handoff { addr, first_display, second_display, second_port, second_other_ip });
    run.prop("handoff", run.tier.pick(75000, 800000), sh, h, run_handoff);
    run.set_rule("net_handoff", "3 real nodes on the in-memory network: R knows A, A knows B, B sits at a generated IPv4/IPv6 address (all classes, boundary ports); R looks B's key up, so B's address travels transport peer table → DHT peer map → Display rendering in A's FIND_NODE reply → R's dial. Variant: a stub names B in the socket form, the Display form, a cut rendering or with a garbage suffix. Oracle: R dials exactly B's socket address (and reaches B) for every library rendering, and never dials an address the string does not spell; all non-trivial");
    let nh = (prop_oneof![2 => v4_any(), 2 => v6_classes(), 1 => grid_addr()], any::<u8>(), prop_oneof![2 => Just(None), 3 => (0u8..4).prop_map(Some)], any::<u16>()).prop_map(|(addr, id_seed, liar_rendering, cut)| NetHandoff { addr, id_seed, liar_rendering, cut });
    run.prop("net_handoff", run.tier.pick(4000, 60000), sh, nh, run_net_handoff);
    let any_addr = || prop_oneof![3 => v4_any(), 1 => v6_classes()];
    let bad = prop_oneof![
        2 => ".{0,40}".prop_map(Bad::Random),
        1 => "[0-9a-f:.\\[\\]() -]{0,40}".prop_map(Bad::Random),
        3 => (any_addr(), any::<u16>()).prop_map(|(a, n)| Bad::Truncated(a, n)),
        1 => any_addr().prop_map(Bad::Words3),
        1 => any_addr().prop_map(Bad::Words5),
        1 => (v4_any(), any::<u32>()).prop_map(|(a, p)| Bad::PortOverflow(a, p)),
        1 => any_addr().prop_map(Bad::OpenParen),
        1 => (any_addr(), "[a-z -]{0,20}").prop_map(|(a, g)| Bad::Garbage(a, g)),
    ];
    run.prop("malformed", run.tier.pick(300000, 6000000), sh, bad, run_bad);
}

pub fn replay(run: &Run, sub: &str, case: &Value) -> Option<bool> {
    match sub {
        "ipv4_grid" | "ipv4_random" | "ipv6" => Some(run.eval_case("replay/addr", &from_value::<Case>(case)?, &check_addr)),
        "handoff" => Some(run.eval_case("replay/handoff", &from_value::<Handoff>(case)?, &run_handoff)),
        "malformed" => Some(run.eval_case("replay/malformed", &from_value::<Bad>(case)?, &run_bad)),
        "net_handoff" => Some(run.eval_case("replay/net_handoff", &from_value::<NetHandoff>(case)?, &run_net_handoff)),
        _ => None,
    }
}
