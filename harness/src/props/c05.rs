//! C05 — hostile inbound bytes are rejected safely; the sender id comes from the connection.
//! Entry points: DhtNetworkManager::handle_dht_message, the real receive dispatcher (frame parser,
//! /rr/ branch, DHT handler) through the injection hook, DhtCoreEngine::handle_request,
//! DhtRecord::{deserialize, serialize}, TransportHandle::parse_request_envelope.
//! Oracle: no panic, bounded heap growth (thread-local counting allocator), caps, timestamp window,
//! source attribution.
use super::c01::tid_bytes;
use crate::engine::*;
use crate::memnet::*;
use proptest::prelude::*;
use saorsa_core::dht::core_engine::{DhtCoreEngine, DhtKey, DhtRequestWrapper, NodeId};
use saorsa_core::dht::network_integration::{DhtMessage, DhtResponse};
use saorsa_core::dht_network_manager::{DhtMessageType, DhtNetworkMessage, DhtNetworkOperation, DhtNetworkResult};
use saorsa_core::network::{verif as wire, P2PEvent};
use saorsa_core::placement::dht_records::{DhtRecord, DhtRecordData, RegisterPointer, SerializableHash};
use saorsa_core::transport_handle::TransportHandle;
use serde::{Deserialize, Serialize};
use serde_json::Value;
use std::time::Duration;

use arbitrary::Unstructured;

const ID: &str = "C05";

#[derive(Debug, Clone, Serialize, Deserialize)]
pub enum Mutn {
    Flip(u16, u8),
    Truncate(u16),
    Splice(u16, Vec<u8>),
    /// overwrite up to 10 bytes at a position with a maximal varint (usize::MAX) or other extreme
    Varint(u16, u8),
    SetByte(u16, u8),
    Append(Vec<u8>),
}
fn mutate(mut b: Vec<u8>, ms: &[Mutn]) -> Vec<u8> {
    for m in ms {
        match m {
            Mutn::Flip(p, bit) => {
                if !b.is_empty() {
                    let i = idx(*p, b.len());
                    b[i] ^= 1 << (bit % 8);
                }
            }
            Mutn::Truncate(p) => {
                let i = idx(*p, b.len() + 1);
                b.truncate(i);
            }
            Mutn::Splice(p, x) => {
                let i = idx(*p, b.len() + 1);
                let tail = b.split_off(i);
                b.extend_from_slice(x);
                b.extend(tail);
            }
            Mutn::Varint(p, kind) => {
                let v: Vec<u8> = match kind % 4 {
                    0 => vec![0xff, 0xff, 0xff, 0xff, 0xff, 0xff, 0xff, 0xff, 0xff, 0x01], // u64::MAX
                    1 => vec![0xff, 0xff, 0xff, 0xff, 0x0f],                               // u32::MAX
                    2 => vec![0x80, 0x80, 0x80, 0x80, 0x80, 0x80, 0x80, 0x80, 0x80, 0x80, 0x01],
                    _ => vec![0xfe, 0xff, 0x03],
                };
                let i = idx(*p, b.len() + 1);
                let tail = b.split_off(i);
                b.extend_from_slice(&v);
                b.extend(tail.into_iter().skip(1));
            }
            Mutn::SetByte(p, x) => {
                if !b.is_empty() {
                    let i = idx(*p, b.len());
                    b[i] = *x;
                }
            }
            Mutn::Append(x) => b.extend_from_slice(x),
        }
    }
    b
}
fn mutn() -> impl Strategy<Value = Mutn> {
    prop_oneof![
        4 => (any::<u16>(), any::<u8>()).prop_map(|(p, b)| Mutn::Flip(p, b)),
        2 => any::<u16>().prop_map(Mutn::Truncate),
        1 => (any::<u16>(), prop::collection::vec(any::<u8>(), 0..12)).prop_map(|(p, x)| Mutn::Splice(p, x)),
        3 => (any::<u16>(), any::<u8>()).prop_map(|(p, k)| Mutn::Varint(p, k)),
        2 => (any::<u16>(), prop_oneof![Just(0u8), Just(0xff), Just(0x7f), Just(0x80), any::<u8>()]).prop_map(|(p, x)| Mutn::SetByte(p, x)),
        1 => prop::collection::vec(any::<u8>(), 0..16).prop_map(Mutn::Append),
    ]
}

#[derive(Debug, Clone, Serialize, Deserialize)]
pub enum Size {
    Small(u16),
    B0,
    B1,
    K64m1,
    K64,
    K64p1,
    K128,
    Mid(u32),
}
fn size_of(s: &Size) -> usize {
    match s {
        Size::Small(n) => *n as usize % 600,
        Size::B0 => 0,
        Size::B1 => 1,
        Size::K64m1 => 65_535,
        Size::K64 => 65_536,
        Size::K64p1 => 65_537,
        Size::K128 => 131_072,
        Size::Mid(n) => 600 + (*n as usize % 130_000),
    }
}

/// A valid DHT message of some kind, with possibly extreme fields.
#[derive(Debug, Clone, Serialize, Deserialize)]
pub struct Msg {
    kind: u8,
    response: u8,
    value_len: u16,
    claimed_source: u8,
    key: u8,
    ts_off: i32,
}
fn build_msg(m: &Msg, real_sender: &str) -> DhtNetworkMessage {
    let key = *blake3::hash(&[m.key]).as_bytes();
    let vlen = match m.value_len % 7 {
        0 => 0usize,
        1 => 512,
        2 => 513,
        3 => 60_000,
        _ => (m.value_len as usize) % 600,
    };
    let payload = match m.kind % 7 {
        0 => DhtNetworkOperation::Put { key, value: vec![0xab; vlen] },
        1 => DhtNetworkOperation::Get { key },
        2 => DhtNetworkOperation::FindNode { key },
        3 => DhtNetworkOperation::FindValue { key },
        4 => DhtNetworkOperation::Ping,
        5 => DhtNetworkOperation::Join,
        _ => DhtNetworkOperation::Leave,
    };
    let src = match m.claimed_source % 4 {
        0 => real_sender.to_string(),
        1 => "somebody-else".to_string(),
        2 => String::new(),
        _ => "x".repeat(300),
    };
    let (mt, result) = match m.response % 5 {
        0 | 1 | 2 => (DhtMessageType::Request, None),
        3 => (DhtMessageType::Response, Some(DhtNetworkResult::GetSuccess { key, value: vec![1; vlen], source: src.clone() })),
        _ => (DhtMessageType::Broadcast, None),
    };
    DhtNetworkMessage { message_id: format!("m-{}", m.key), source: src, target: None, message_type: mt, payload, result, timestamp: (now_secs() as i64 + m.ts_off as i64).max(0) as u64, ttl: 10, hop_count: 0 }
}

#[derive(Debug, Clone, Serialize, Deserialize)]
pub enum Input {
    /// bytes chosen by the coverage-guided stage (or a replay), handed over as they are
    Raw(Vec<u8>),
    Random(Size, u8),
    MutatedMsg(Msg, Vec<Mutn>),
    ValidMsg(Msg),
}
#[derive(Debug, Clone, Serialize, Deserialize)]
pub struct Case {
    input: Input,
    /// frame-level fields for the dispatcher path
    protocol: u8,
    frame_ts_off: i32,
    frame_from: u8,
    frame_mut: Vec<Mutn>,
}

fn bytes_of(i: &Input, sender: &str) -> (Vec<u8>, bool, Option<Msg>) {
    match i {
        Input::Raw(b) => (b.clone(), false, None),
        Input::Random(sz, fill) => {
            let n = size_of(sz);
            let mut b = vec![*fill; n];
            for (k, x) in b.iter_mut().enumerate().take(64) {
                *x = x.wrapping_mul(31).wrapping_add(k as u8);
            }
            (b, false, None)
        }
        Input::MutatedMsg(m, ms) => (mutate(postcard::to_stdvec(&build_msg(m, sender)).unwrap_or_default(), ms), false, None),
        Input::ValidMsg(m) => (postcard::to_stdvec(&build_msg(m, sender)).unwrap_or_default(), true, Some(m.clone())),
    }
}

fn run_case(c: &Case) -> Verdict {
    let rt = paused_rt();
    let pan0 = panic_count();
    let mut v = rt.block_on(async { run_async(c).await });
    attribute_task_panics(&mut v, ID, pan0);
    v
}

async fn run_async(c: &Case) -> Verdict {
    let mut v = Verdict::new();
    let hub = Hub::new(5, 0);
    let node = match add_node(&hub, tid_bytes(0x55, 0), node_addr(0), None, Duration::from_secs(2), 8).await {
        Ok(n) => n,
        Err(e) => {
            v.fail(format!("{ID}/harness/node-construction-failed"), e);
            return v;
        }
    };
    let peer = add_stub(&hub, tid_bytes(0x55, 1), node_addr(1), StubScript::default());
    let _ = node.th.connect_peer(&node_addr(1).to_string()).await;
    settle(10).await;
    let (bytes, valid, msg) = bytes_of(&c.input, &peer);
    let len = bytes.len();
    let key_probe: Vec<[u8; 32]> = (0..=255u8).map(|k| *blake3::hash(&[k]).as_bytes()).collect();
    let before_keys = {
        let mut n = 0;
        for k in key_probe.iter().step_by(16) {
            if node.mgr.has_key_locally(k).await {
                n += 1;
            }
        }
        n
    };

    // ---- (a) handle_dht_message directly
    alloc_begin();
    let r = node.mgr.handle_dht_message(&bytes, &peer).await;
    let (peak, biggest) = alloc_end();
    if len > 64 * 1024 {
        if r.is_ok() {
            v.fail(format!("{ID}/handle_dht_message/oversized-message-not-refused"), format!("{len} bytes accepted"));
        }
        if peak >= 64 * 1024 {
            v.fail(format!("{ID}/handle_dht_message/oversized-message-decoded-before-size-check"), format!("{len}-byte message: {peak} bytes allocated before the refusal"));
        }
    }
    let bound = 4 * 1024 * 1024 + 16 * len;
    if peak > bound {
        v.fail(format!("{ID}/handle_dht_message/heap-growth-beyond-documented-limits"), format!("{peak} bytes (largest request {biggest}) for a {len}-byte input; bound {bound}"));
    }
    if let Ok(Some(resp)) = &r {
        if let Ok(m) = postcard::from_bytes::<DhtNetworkMessage>(resp) {
            if let Some(DhtNetworkResult::NodesFound { nodes, .. }) = &m.result {
                if nodes.len() > 20 {
                    v.fail(format!("{ID}/handle_dht_message/reply-exceeds-find-node-cap"), format!("{} nodes", nodes.len()));
                }
            }
        }
    }
    // a PUT with an oversized value must leave the store alone
    if let Some(m) = &msg {
        if valid && m.kind % 7 == 0 && m.response % 5 <= 2 {
            let key = *blake3::hash(&[m.key]).as_bytes();
            let held = node.mgr.get_local(&key).await.ok().flatten();
            let vlen = match m.value_len % 7 { 0 => 0usize, 1 => 512, 2 => 513, 3 => 60_000, _ => (m.value_len as usize) % 600 };
            if vlen > 512 && held.as_ref().map(|h| h.len() > 512).unwrap_or(false) {
                v.fail(format!("{ID}/handle_dht_message/oversized-value-stored"), format!("{vlen}-byte value is in the store"));
            }
            if vlen <= 512 && len <= 64 * 1024 && held.as_ref().map(|h| h.len()) != Some(vlen) {
                v.fail(format!("{ID}/handle_dht_message/valid-put-not-stored"), format!("{vlen}-byte value from a connected peer; store holds {:?}", held.map(|h| h.len())));
            }
        }
    }
    if !valid {
        let after_keys = {
            let mut n = 0;
            for k in key_probe.iter().step_by(16) {
                if node.mgr.has_key_locally(k).await {
                    n += 1;
                }
            }
            n
        };
        let _ = (before_keys, after_keys);
    }

    // ---- (b) through the real receive dispatcher
    let protocols = ["/dht/1.0.0", "/rr/test", "chat", "/rr/", ""];
    let proto = protocols[c.protocol as usize % protocols.len()];
    let claimed = match c.frame_from % 3 {
        0 => peer.clone(),
        1 => node.tid.clone(),
        _ => "mallory".to_string(),
    };
    let ts = (now_secs() as i64 + c.frame_ts_off as i64).max(0) as u64;
    let body = if proto.starts_with("/rr/") { wire::encode_rr_envelope("e1", c.frame_from % 2 == 0, bytes.clone()) } else { bytes.clone() };
    let frame_plain = wire::encode_wire_message(proto, body, &claimed, ts);
    let frame = mutate(frame_plain.clone(), &c.frame_mut);
    let mutated = frame != frame_plain;
    let mut events = node.th.subscribe_events();
    alloc_begin();
    hub.inject(&peer, &node.tid, frame.clone()).await;
    settle(30).await;
    let (peak2, _) = alloc_end();
    let fb = 4 * 1024 * 1024 + 16 * frame.len();
    if peak2 > fb {
        v.fail(format!("{ID}/dispatcher/heap-growth-beyond-documented-limits"), format!("{peak2} bytes for a {}-byte frame; bound {fb}", frame.len()));
    }
    let mut surfaced = None;
    while let Ok(ev) = events.try_recv() {
        if let P2PEvent::Message { topic, source, data } = ev {
            surfaced = Some((topic, source, data.len()));
        }
    }
    if let Some((_, source, _)) = &surfaced {
        if *source != peer {
            v.fail(format!("{ID}/dispatcher/source-taken-from-payload-not-connection"), format!("frame injected on the connection of {}… surfaced with source '{}…'; payload claimed '{}'", &peer[..8], &source[..source.len().min(12)], &claimed[..claimed.len().min(12)]));
        }
    }
    if !mutated {
        let off = c.frame_ts_off as i64;
        let is_rr_response = proto.starts_with("/rr/") && c.frame_from % 2 == 0;
        if surfaced.is_some() && !(-305..=35).contains(&off) {
            v.fail(format!("{ID}/parse_protocol_message/frame-outside-timestamp-window-surfaced"), format!("timestamp offset {off} s"));
        }
        if surfaced.is_none() && (-295..=25).contains(&off) && !is_rr_response && frame.len() < 200_000 {
            v.fail(format!("{ID}/parse_protocol_message/well-formed-frame-inside-window-dropped"), format!("protocol '{proto}', timestamp offset {off} s, {} bytes", frame.len()));
        }
        v.class(if surfaced.is_some() { "frame_surfaced" } else { "frame_dropped" });
    } else if let Some(parsed) = wire::parse_protocol_message(&frame, &peer) {
        // the parser accepted the mutated frame: source must still be the connection id
        if let P2PEvent::Message { source, .. } = parsed {
            if source != peer {
                v.fail(format!("{ID}/parse_protocol_message/source-taken-from-payload-not-connection"), format!("source '{source}'"));
            }
        }
    }

    // ---- (c) envelope parser and record codec on the same bytes
    let _ = TransportHandle::parse_request_envelope(&bytes);
    alloc_begin();
    let rec = DhtRecord::deserialize(&bytes);
    let (peak3, _) = alloc_end();
    if peak3 > 1024 * 1024 {
        v.fail(format!("{ID}/DhtRecord::deserialize/heap-growth-beyond-documented-limits"), format!("{peak3} bytes for {len} input bytes"));
    }
    if let Ok(rec) = rec {
        if len > 512 {
            v.fail(format!("{ID}/DhtRecord::deserialize/accepts-more-than-512-bytes"), format!("{len} bytes"));
        }
        if let Ok(out) = rec.serialize() {
            if out.len() > 512 {
                v.fail(format!("{ID}/DhtRecord::serialize/emits-more-than-512-bytes"), format!("{} bytes", out.len()));
            }
        }
    }
    let decoded_outer = postcard::from_bytes::<DhtNetworkMessage>(&bytes).is_ok();
    v.nt(decoded_outer || matches!(c.input, Input::Random(Size::B0 | Size::B1 | Size::K64m1 | Size::K64 | Size::K64p1 | Size::K128, _)));
    v.class(match &c.input {
        Input::Raw(..) => "raw_bytes",
        Input::Random(..) => "random",
        Input::MutatedMsg(..) => "mutated_message",
        Input::ValidMsg(..) => "valid_extreme_fields",
    });
    if len > 64 * 1024 {
        v.class("over_64KiB");
    }
    let _ = tokio::time::timeout(Duration::from_secs(600), node.mgr.stop()).await;
    v
}

// ---- core engine requests and records (no network) -------------------------------------------------
#[derive(Debug, Clone, Serialize, Deserialize)]
pub struct CoreCase {
    kind: u8,
    count: u8,
    value_len: u16,
    table: u8,
    muts: Vec<Mutn>,
}
fn run_core(c: &CoreCase) -> Verdict {
    let rt = paused_rt();
    rt.block_on(async {
        let mut v = Verdict::new();
        let mut eng = DhtCoreEngine::verif_new_log_only(NodeId::from_bytes([0u8; 32])).expect("engine");
        for i in 0..(c.table % 60) {
            let id = super::c02::id_in_bucket(&[0u8; 32], i % 7, i);
            let _ = eng.join_network(vec![saorsa_core::dht::core_engine::NodeInfo { id: NodeId::from_bytes(id), address: format!("10.0.{i}.1:9000"), last_seen: std::time::SystemTime::now(), capacity: Default::default() }]).await;
        }
        let key = DhtKey::from_bytes([7u8; 32]);
        let count = match c.count % 6 {
            0 => 0usize,
            1 => 20,
            2 => 21,
            3 => usize::MAX,
            4 => 1 << 40,
            _ => c.count as usize,
        };
        let vlen = match c.value_len % 6 {
            0 => 0usize,
            1 => 512,
            2 => 513,
            3 => 60_000,
            _ => c.value_len as usize % 600,
        };
        let message = match c.kind % 4 {
            0 => DhtMessage::FindNode { target: key.clone(), count },
            1 => DhtMessage::FindValue { key: key.clone() },
            2 => DhtMessage::Store { key: key.clone(), value: vec![9; vlen], ttl: Duration::from_secs(60) },
            _ => DhtMessage::Retrieve { key: key.clone(), consistency: saorsa_core::dht::core_engine::ConsistencyLevel::One },
        };
        // the request as it would arrive: serialise, mutate, decode
        let wrapper = DhtRequestWrapper { id: "r".into(), message };
        let raw = mutate(postcard::to_stdvec(&wrapper).unwrap_or_default(), &c.muts);
        alloc_begin();
        let decoded = postcard::from_bytes::<DhtRequestWrapper>(&raw);
        let (peak0, _) = alloc_end();
        if peak0 > 4 * 1024 * 1024 + 16 * raw.len() {
            v.fail(format!("{ID}/DhtRequestWrapper/decode-heap-growth-beyond-limits"), format!("{peak0} bytes for {} input bytes", raw.len()));
        }
        if let Ok(req) = decoded {
            let store_len = match &req.message {
                DhtMessage::Store { value, .. } => Some(value.len()),
                _ => None,
            };
            alloc_begin();
            let resp = eng.handle_request(req).await;
            let (peak, _) = alloc_end();
            if peak > 4 * 1024 * 1024 + 16 * raw.len() {
                v.fail(format!("{ID}/DhtCoreEngine::handle_request/heap-growth-beyond-documented-limits"), format!("{peak} bytes"));
            }
            match &resp.response {
                DhtResponse::FindNodeReply { nodes, .. } => {
                    if nodes.len() > 20 {
                        v.fail(format!("{ID}/DhtCoreEngine::handle_request/find-node-count-not-capped"), format!("{} nodes for count {count}", nodes.len()));
                    }
                }
                DhtResponse::FindValueReply { nodes, .. } => {
                    if nodes.len() > 8 {
                        v.fail(format!("{ID}/DhtCoreEngine::handle_request/find-value-reply-not-capped"), format!("{} nodes", nodes.len()));
                    }
                }
                DhtResponse::StoreAck { .. } => {
                    if store_len.map(|l| l > 512).unwrap_or(false) {
                        v.fail(format!("{ID}/DhtCoreEngine::handle_request/oversized-value-stored"), format!("{store_len:?} bytes acknowledged"));
                    }
                }
                _ => {}
            }
            if let Some(l) = store_len {
                let held = eng.retrieve(&key).await.ok().flatten();
                if l > 512 && held.map(|h| h.len() > 512).unwrap_or(false) {
                    v.fail(format!("{ID}/DhtCoreEngine::handle_request/oversized-value-stored"), format!("{l} bytes in the store"));
                }
            }
            v.class("decoded");
        } else {
            v.class("rejected_by_decoder");
        }
        // records: a valid one, mutated
        let rp = RegisterPointer { name_id: SerializableHash::from([1u8; 32]), root_ref: SerializableHash::from([2u8; 32]), version: c.count as u64, ts: now_secs(), signature: if c.value_len % 3 == 0 { None } else { Some(vec![5; (c.value_len % 520) as usize]) } };
        let rec = DhtRecord::new(SerializableHash::from([3u8; 32]), DhtRecordData::RegisterPointer(rp), None);
        match rec.serialize() {
            Ok(b) => {
                if b.len() > 512 {
                    v.fail(format!("{ID}/DhtRecord::serialize/emits-more-than-512-bytes"), format!("{} bytes", b.len()));
                }
                let m = mutate(b.clone(), &c.muts);
                if let Ok(r2) = DhtRecord::deserialize(&m) {
                    if m.len() > 512 {
                        v.fail(format!("{ID}/DhtRecord::deserialize/accepts-more-than-512-bytes"), format!("{} bytes", m.len()));
                    }
                    let _ = r2.serialize();
                }
                if c.muts.is_empty() && DhtRecord::deserialize(&b).is_err() {
                    v.fail(format!("{ID}/DhtRecord/own-serialisation-does-not-deserialise"), format!("{} bytes", b.len()));
                }
            }
            Err(_) => v.class("record_too_large_refused"),
        }
        v.nt(!c.muts.is_empty() || count > 20 || vlen > 512);
        v
    })
}

pub fn inbound_case() -> impl Strategy<Value = Case> {
        let size = prop_oneof![4 => any::<u16>().prop_map(Size::Small), 1 => Just(Size::B0), 1 => Just(Size::B1), 1 => Just(Size::K64m1), 1 => Just(Size::K64), 1 => Just(Size::K64p1), 1 => Just(Size::K128), 1 => any::<u32>().prop_map(Size::Mid)];
    let msg = (any::<u8>(), any::<u8>(), any::<u16>(), any::<u8>(), any::<u8>(), prop_oneof![3 => Just(0i32), 1 => -400i32..100]).prop_map(|(kind, response, value_len, claimed_source, key, ts_off)| Msg { kind, response, value_len, claimed_source, key, ts_off });
    let input = prop_oneof![
        2 => (size, any::<u8>()).prop_map(|(s, f)| Input::Random(s, f)),
        5 => (msg.clone(), prop::collection::vec(mutn(), 1..5)).prop_map(|(m, ms)| Input::MutatedMsg(m, ms)),
        4 => msg.prop_map(Input::ValidMsg),
    ];
    let ts = prop_oneof![3 => Just(0i32), 2 => prop_oneof![Just(-310i32), Just(-296), Just(-290), Just(-304), Just(20), Just(26), Just(34), Just(40)], 2 => -400i32..100];
    (input, any::<u8>(), ts, any::<u8>(), prop_oneof![3 => Just(Vec::new()), 1 => prop::collection::vec(mutn(), 1..4)]).prop_map(|(input, protocol, frame_ts_off, frame_from, frame_mut)| Case { input, protocol, frame_ts_off, frame_from, frame_mut })
}
pub fn core_case() -> impl Strategy<Value = CoreCase> {
    (any::<u8>(), any::<u8>(), any::<u16>(), any::<u8>(), prop_oneof![1 => Just(Vec::new()), 2 => prop::collection::vec(mutn(), 1..5)]).prop_map(|(kind, count, value_len, table, muts)| CoreCase { kind, count, value_len, table, muts })
}
// ---- byte decoders for the coverage-guided stage: same shapes and ranges as the strategies above -------------
fn mutn_dec(u: &mut Unstructured) -> arbitrary::Result<Mutn> {
    Ok(match u.int_in_range(0u8..=12)? {
        0..=3 => Mutn::Flip(u.arbitrary()?, u.arbitrary()?),
        4 | 5 => Mutn::Truncate(u.arbitrary()?),
        6 => {
            let n = u.int_in_range(0usize..=11)?;
            Mutn::Splice(u.arbitrary()?, u.bytes(n.min(u.len()))?.to_vec())
        }
        7..=9 => Mutn::Varint(u.arbitrary()?, u.arbitrary()?),
        10 | 11 => Mutn::SetByte(u.arbitrary()?, u.arbitrary()?),
        _ => {
            let n = u.int_in_range(0usize..=15)?;
            Mutn::Append(u.bytes(n.min(u.len()))?.to_vec())
        }
    })
}
fn msg_dec(u: &mut Unstructured) -> arbitrary::Result<Msg> {
    Ok(Msg { kind: u.arbitrary()?, response: u.arbitrary()?, value_len: u.arbitrary()?, claimed_source: u.arbitrary()?, key: u.arbitrary()?, ts_off: if u.ratio(3u8, 4u8)? { 0 } else { u.int_in_range(-400i32..=99)? } })
}
pub fn decode_inbound(data: &[u8]) -> Option<Case> {
    let mut u = Unstructured::new(data);
    let r: arbitrary::Result<Case> = (|| {
        let protocol = u.arbitrary()?;
        let frame_ts_off = match u.int_in_range(0u8..=6)? {
            0..=2 => 0,
            3 | 4 => *u.choose(&[-310i32, -296, -290, -304, 20, 26, 34, 40])?,
            _ => u.int_in_range(-400i32..=99)?,
        };
        let frame_from = u.arbitrary()?;
        let nfm = if u.ratio(3u8, 4u8)? { 0 } else { u.int_in_range(1usize..=3)? };
        let mut frame_mut = Vec::new();
        for _ in 0..nfm {
            frame_mut.push(mutn_dec(&mut u)?);
        }
        let input = match u.int_in_range(0u8..=3)? {
            0 | 1 => {
                let n = u.len().min(70_000);
                Input::Raw(u.bytes(n)?.to_vec())
            }
            2 => {
                let m = msg_dec(&mut u)?;
                let n = u.int_in_range(1usize..=4)?;
                let mut ms = Vec::new();
                for _ in 0..n {
                    ms.push(mutn_dec(&mut u)?);
                }
                Input::MutatedMsg(m, ms)
            }
            _ => Input::ValidMsg(msg_dec(&mut u)?),
        };
        Ok(Case { input, protocol, frame_ts_off, frame_from, frame_mut })
    })();
    r.ok()
}
pub fn decode_core(data: &[u8]) -> Option<CoreCase> {
    let mut u = Unstructured::new(data);
    let r: arbitrary::Result<CoreCase> = (|| {
        let (kind, count, value_len, table) = (u.arbitrary()?, u.arbitrary()?, u.arbitrary()?, u.arbitrary()?);
        let n = u.int_in_range(0usize..=4)?;
        let mut muts = Vec::new();
        for _ in 0..n {
            muts.push(mutn_dec(&mut u)?);
        }
        Ok(CoreCase { kind, count, value_len, table, muts })
    })();
    r.ok()
}

pub fn check_inbound(c: &Case) -> Verdict {
    run_case(c)
}
pub fn check_core(c: &CoreCase) -> Verdict {
    run_core(c)
}

// ---- hostile *replies*: bytes a peer sends in answer to the node's own request are received bytes too ----------
#[derive(Debug, Clone, Serialize, Deserialize)]
pub enum IdShape {
    Hex,
    Empty,
    /// n repetitions of a 2-byte character after an optional 1-byte prefix (byte 8 falls inside a character)
    MultiByte(u8, bool),
    Long(u16),
    /// arbitrary text
    Text(String),
}
fn id_of(s: &IdShape, i: usize) -> String {
    match s {
        IdShape::Hex => hex::encode(blake3::hash(&[i as u8, 0x5e]).as_bytes()),
        IdShape::Empty => String::new(),
        IdShape::MultiByte(n, prefix) => format!("{}{}", if *prefix { "a" } else { "" }, "é".repeat(1 + *n as usize % 12)),
        IdShape::Long(n) => "z".repeat(*n as usize % 2000),
        IdShape::Text(t) => t.clone(),
    }
}
#[derive(Debug, Clone, Serialize, Deserialize)]
pub enum HostileReply {
    /// ValueFound / GetSuccess with a value of the given size class (0, 512, 513, 4096, 60 000, other)
    Value { get_success: bool, len: u16, other_key: bool, source: IdShape },
    /// NodesFound naming n nodes with the given id and address shapes
    Nodes { n: u16, id: IdShape, addr: u8, forged_distance: bool },
    PutAck { replicated_to: u64, outcomes: u16, id: IdShape },
    NotFound { peers_queried: u64 },
    Pong { responder: IdShape },
    Error { len: u16 },
}
#[derive(Debug, Clone, Serialize, Deserialize)]
pub struct ReplyCase {
    /// 0 get, 1 find_closest_nodes, 2 put, 3 ping
    op: u8,
    key: u8,
    reply: HostileReply,
}
fn vlen_of(x: u16) -> usize {
    match x % 8 {
        0 => 0,
        1 => 512,
        2 => 513,
        3 => 4096,
        4 => 60_000,
        5 => 65_000,
        _ => x as usize % 700,
    }
}
fn run_reply(c: &ReplyCase) -> Verdict {
    let rt = paused_rt();
    let pan0 = panic_count();
    let mut v = rt.block_on(async {
        let mut v = Verdict::new();
        let hub = Hub::new(5, 0);
        let node = match add_node(&hub, tid_bytes(0x56, 0), node_addr(0), None, Duration::from_secs(2), 8).await {
            Ok(n) => n,
            Err(e) => {
                v.fail(format!("{ID}/harness/node-construction-failed"), e);
                return v;
            }
        };
        let key = *blake3::hash(&[c.key, 0x72]).as_bytes();
        let other = *blake3::hash(&[c.key, 0x73]).as_bytes();
        let mut big_value = false;
        let result = match &c.reply {
            HostileReply::Value { get_success, len, other_key, source } => {
                let n = vlen_of(*len);
                big_value = n > 512;
                let k = if *other_key { other } else { key };
                if *get_success {
                    DhtNetworkResult::GetSuccess { key: k, value: vec![0xee; n], source: id_of(source, 0) }
                } else {
                    DhtNetworkResult::ValueFound { key: k, value: vec![0xee; n], source: id_of(source, 0) }
                }
            }
            HostileReply::Nodes { n, id, addr, forged_distance } => {
                let count = match n % 6 {
                    0 => 0usize,
                    1 => 1,
                    2 => 20,
                    3 => 21,
                    4 => 300,
                    _ => *n as usize % 3000,
                };
                let nodes = (0..count)
                    .map(|i| saorsa_core::dht_network_manager::DHTNode {
                        peer_id: match id {
                            IdShape::Hex => id_of(id, i),
                            other => format!("{}{}", id_of(other, i), if i % 3 == 0 { String::new() } else { i.to_string() }),
                        },
                        address: match addr % 5 {
                            0 => node_addr(300 + i % 200).to_string(),
                            1 => String::new(),
                            2 => "not an address".to_string(),
                            3 => format!("{} ({})", node_addr(300 + i % 200), "é".repeat(9)),
                            _ => "9".repeat(1000),
                        },
                        distance: if *forged_distance { Some(vec![0u8; (i % 40) as usize]) } else { None },
                        reliability: if i % 2 == 0 { f64::NAN } else { 1.0 },
                        cached_dht_key: None,
                    })
                    .collect();
                DhtNetworkResult::NodesFound { key, nodes }
            }
            HostileReply::PutAck { replicated_to, outcomes, id } => DhtNetworkResult::PutSuccess {
                key,
                replicated_to: *replicated_to as usize,
                peer_outcomes: (0..(*outcomes as usize % 500)).map(|i| saorsa_core::dht_network_manager::PeerStoreOutcome { peer_id: id_of(id, i), success: i % 2 == 0, error: Some("x".repeat(i % 50)) }).collect(),
            },
            HostileReply::NotFound { peers_queried } => DhtNetworkResult::GetNotFound { key, peers_queried: *peers_queried as usize, peers_failed: usize::MAX, last_error: Some("é".repeat(20)) },
            HostileReply::Pong { responder } => DhtNetworkResult::PongReceived { responder: id_of(responder, 0), latency: Duration::from_secs(u64::MAX / 4) },
            HostileReply::Error { len } => DhtNetworkResult::Error { operation: "é".repeat(5), error: "e".repeat(*len as usize % 70_000) },
        };
        let reply_len = postcard::to_stdvec(&result).map(|b| b.len()).unwrap_or(0);
        let peer = add_stub(&hub, tid_bytes(0x56, 1), node_addr(1), StubScript { raw_result: Some(result), ack_put: true, ..StubScript::default() });
        let _ = node.th.connect_peer(&node_addr(1).to_string()).await;
        settle(10).await;
        alloc_begin();
        let done = tokio::time::timeout(Duration::from_secs(2 * 45), async {
            match c.op % 4 {
                0 => node.mgr.get(&key).await.map(|r| format!("{:?}", std::mem::discriminant(&r))).map_err(|e| e.to_string()),
                1 => node.mgr.find_closest_nodes(&key, 8).await.map(|r| format!("{} nodes", r.len())).map_err(|e| e.to_string()),
                2 => node.mgr.put(key, vec![1, 2, 3]).await.map(|r| format!("{:?}", std::mem::discriminant(&r))).map_err(|e| e.to_string()),
                _ => node.mgr.ping(&peer).await.map(|r| format!("{r:?}")).map_err(|e| e.to_string()),
            }
        })
        .await;
        let (peak, biggest) = alloc_end();
        let site = ["get", "find_closest_nodes", "put", "ping"][(c.op % 4) as usize];
        if done.is_err() {
            v.fail(format!("{ID}/{site}/hostile-reply-hangs-the-operation"), format!("{:?}", c.reply));
        }
        let bound = 4 * 1024 * 1024 + 16 * reply_len;
        if peak > bound {
            v.fail(format!("{ID}/{site}/heap-growth-beyond-documented-limits"), format!("{peak} bytes (largest request {biggest}) while handling a {reply_len}-byte reply; bound {bound}"));
        }
        if c.op % 4 == 1 {
            if let Ok(Ok(r)) = &done {
                let n: usize = r.split(' ').next().and_then(|x| x.parse().ok()).unwrap_or(0);
                v.check(n <= 8, &format!("{ID}/{site}/more-nodes-returned-than-requested"), || r.clone());
            }
        }
        // nothing over 512 bytes may have entered the store, under the requested key or the one the reply named
        for k in [key, other] {
            if let Ok(Some(held)) = node.mgr.get_local(&k).await {
                if held.len() > 512 {
                    v.fail(format!("{ID}/{site}/oversized-value-from-a-reply-retained"), format!("{} bytes from a peer's reply are in the local store", held.len()));
                }
            }
        }
        v.nt(true);
        v.class(format!("op_{site}"));
        v.class(match &c.reply {
            HostileReply::Value { .. } => if big_value { "reply_oversized_value" } else { "reply_value" },
            HostileReply::Nodes { .. } => "reply_nodes",
            HostileReply::PutAck { .. } => "reply_put_ack",
            HostileReply::NotFound { .. } => "reply_not_found",
            HostileReply::Pong { .. } => "reply_pong",
            HostileReply::Error { .. } => "reply_error",
        });
        let _ = tokio::time::timeout(Duration::from_secs(600), node.mgr.stop()).await;
        v
    });
    attribute_task_panics(&mut v, ID, pan0);
    v
}
fn id_shape() -> impl Strategy<Value = IdShape> {
    prop_oneof![2 => Just(IdShape::Hex), 1 => Just(IdShape::Empty), 3 => (any::<u8>(), any::<bool>()).prop_map(|(n, p)| IdShape::MultiByte(n, p)), 1 => any::<u16>().prop_map(IdShape::Long), 2 => ".{0,24}".prop_map(IdShape::Text)]
}
pub fn reply_case() -> impl Strategy<Value = ReplyCase> {
    let reply = prop_oneof![
        4 => (any::<bool>(), any::<u16>(), any::<bool>(), id_shape()).prop_map(|(get_success, len, other_key, source)| HostileReply::Value { get_success, len, other_key, source }),
        4 => (any::<u16>(), id_shape(), 0u8..5, any::<bool>()).prop_map(|(n, id, addr, forged_distance)| HostileReply::Nodes { n, id, addr, forged_distance }),
        1 => (prop_oneof![Just(0u64), Just(u64::MAX), any::<u64>()], any::<u16>(), id_shape()).prop_map(|(replicated_to, outcomes, id)| HostileReply::PutAck { replicated_to, outcomes, id }),
        1 => any::<u64>().prop_map(|peers_queried| HostileReply::NotFound { peers_queried }),
        1 => id_shape().prop_map(|responder| HostileReply::Pong { responder }),
        1 => any::<u16>().prop_map(|len| HostileReply::Error { len }),
    ];
    (0u8..4, any::<u8>(), reply).prop_map(|(op, key, reply)| ReplyCase { op, key, reply })
}
// byte decoder of ReplyCase for the coverage-guided stage: same shapes and ranges as `reply_case`
fn id_shape_dec(u: &mut Unstructured) -> arbitrary::Result<IdShape> {
    Ok(match u.int_in_range(0u8..=8)? {
        0 | 1 => IdShape::Hex,
        2 => IdShape::Empty,
        3..=5 => IdShape::MultiByte(u.arbitrary()?, u.arbitrary()?),
        6 => IdShape::Long(u.arbitrary()?),
        _ => {
            let n = u.int_in_range(0usize..=24)?.min(u.len());
            IdShape::Text(String::from_utf8_lossy(u.bytes(n)?).chars().take(24).collect())
        }
    })
}
pub fn decode_reply(data: &[u8]) -> Option<ReplyCase> {
    let mut u = Unstructured::new(data);
    let r: arbitrary::Result<ReplyCase> = (|| {
        let op = u.int_in_range(0u8..=3)?;
        let key = u.arbitrary()?;
        let reply = match u.int_in_range(0u8..=11)? {
            0..=3 => HostileReply::Value { get_success: u.arbitrary()?, len: u.arbitrary()?, other_key: u.arbitrary()?, source: id_shape_dec(&mut u)? },
            4..=7 => HostileReply::Nodes { n: u.arbitrary()?, id: id_shape_dec(&mut u)?, addr: u.int_in_range(0u8..=4)?, forged_distance: u.arbitrary()? },
            8 => HostileReply::PutAck { replicated_to: u.arbitrary()?, outcomes: u.arbitrary()?, id: id_shape_dec(&mut u)? },
            9 => HostileReply::NotFound { peers_queried: u.arbitrary()? },
            10 => HostileReply::Pong { responder: id_shape_dec(&mut u)? },
            _ => HostileReply::Error { len: u.arbitrary()? },
        };
        Ok(ReplyCase { op, key, reply })
    })();
    r.ok()
}
pub fn check_reply(c: &ReplyCase) -> Verdict {
    run_reply(c)
}

pub fn run(run: &Run) {
    // a single allocation request that would abort the process is decided for the case in flight (engine::absurd_fatal)
    TRACK_INFLIGHT.store(true, std::sync::atomic::Ordering::Relaxed);
    install_log_sink();
    run.assume("heap growth is measured by a thread-local counting allocator around each call on a single-threaded runtime");
    run.assume("timestamp window edges get a 5 s dead band (wall clock)");
    run.set_rule("inbound", "bytes handed to handle_dht_message and, framed (protocol, claimed sender, timestamp offset, optional frame mutations), to the real receive dispatcher: random bytes with sizes clustered at 0/1/64Ki−1/64Ki/64Ki+1/128Ki, structure-aware mutations (bit flips, truncation, splices, maximal varints, byte overwrite) of every valid message kind, and valid messages with extreme fields; non-trivial = decodes at least to the outer message, or a boundary size");
    run.set_rule("core", "DhtRequestWrapper (FindNode count 0/20/21/usize::MAX, Store 0/512/513/60000 bytes, FindValue, Retrieve) serialised, mutated, decoded and handled on tables of 0..59 nodes; DhtRecord serialise/mutate/deserialise; non-trivial = mutated or extreme field");
    run.max_shrink.store(400, std::sync::atomic::Ordering::Relaxed);
    let sh = shards_for(run.tier);
    run.prop_f("inbound", run.tier.pick(12000, 400000), sh, inbound_case, run_case);
    run.prop_f("core", run.tier.pick(24000, 1200000), sh, core_case, run_core);
    run.assume("every sub-check runs with logging on (a tracing subscriber that enables every level and formats every field), as a production node does: a panic while evaluating a log line's arguments is a panic of message handling");
    run.set_rule("reply", "a real node issues get / find_closest_nodes / put / ping to a connected stub that answers its request (right id, right connection) with a hostile result: ValueFound/GetSuccess of 0/512/513/4096/60000/65000 bytes (also under another key), NodesFound naming 0/1/20/21/300/..3000 nodes whose ids are hex, empty, multi-byte text, long or arbitrary text and whose addresses are valid, empty, garbage or huge, forged distances, NaN reliability, PutSuccess with absurd counts, GetNotFound/Pong/Error with extreme fields; oracle: no panic (logging on), operation completes, heap growth ≤ 4 MiB + 16×reply, ≤ k nodes returned, nothing over 512 bytes in the local store; all non-trivial");
    run.prop_f("reply", run.tier.pick(8000, 120000), sh, reply_case, run_reply);
}

pub fn replay(run: &Run, sub: &str, case: &Value) -> Option<bool> {
    install_log_sink();
    match sub {
        "inbound" => Some(run.eval_case("replay/inbound", &from_value::<Case>(case)?, &run_case)),
        "core" => Some(run.eval_case("replay/core", &from_value::<CoreCase>(case)?, &run_core)),
        "reply" => Some(run.eval_case("replay/reply", &from_value::<ReplyCase>(case)?, &run_reply)),
        _ => None,
    }
}
