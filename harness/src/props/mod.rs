use crate::engine::Run;
use serde_json::Value;

pub mod c01;
pub mod c02;
pub mod c03;
pub mod c04;
pub mod c05;
pub mod c06;
pub mod c07;
pub mod c08;
pub mod c09;
pub mod c10;
pub mod c11;
pub mod c12;
pub mod c13;
pub mod c14;
pub mod c15;
pub mod c16;
pub mod c17;
pub mod c18;
pub mod c19;
pub mod c20;

pub type RunFn = fn(&Run);
pub type ReplayFn = fn(&Run, &str, &Value) -> Option<bool>;

/// (id, evidence level, run, replay)
pub const REGISTRY: &[(&str, &str, RunFn, ReplayFn)] = &[
    ("C01", "exploration", c01::run, c01::replay),
    ("C02", "exploration", c02::run, c02::replay),
    ("C03", "exploration", c03::run, c03::replay),
    ("C04", "exploration", c04::run, c04::replay),
    ("C05", "exploration", c05::run, c05::replay),
    ("C06", "fault_enumeration", c06::run, c06::replay),
    ("C07", "fault_enumeration", c07::run, c07::replay),
    ("C08", "exploration", c08::run, c08::replay),
    ("C09", "exploration", c09::run, c09::replay),
    ("C10", "exploration", c10::run, c10::replay),
    ("C11", "exploration", c11::run, c11::replay),
    ("C12", "exploration", c12::run, c12::replay),
    ("C13", "exploration", c13::run, c13::replay),
    ("C14", "exploration", c14::run, c14::replay),
    ("C15", "exploration", c15::run, c15::replay),
    ("C16", "exploration", c16::run, c16::replay),
    ("C17", "exploration", c17::run, c17::replay),
    ("C18", "exploration", c18::run, c18::replay),
    ("C19", "exploration", c19::run, c19::replay),
    ("C20", "exploration", c20::run, c20::replay),
];
