//! C08 — signatures verify only for the exact message and key that produced them (shipping build).
//! Oracle: round trip (genuine ⇒ accepted) + tamper rejection (any bit of message/signature/key,
//! or another identity ⇒ rejected) at every call site that checks signatures.
use crate::engine::*;
use base64::Engine as _;
use proptest::prelude::*;
use saorsa_core::auth::{CompositeWriteAuth, DelegatedWriteAuth, PubKey, Sig, SingleWriteAuth, ThresholdWriteAuth, WriteAuth};
use saorsa_core::identity::node_identity::NodeIdentity;
use saorsa_core::identity::secure_node_identity::SecureNodeIdentity;
use saorsa_core::key_derivation::{DerivationPath, HierarchicalKeyDerivation, MasterSeed};
use saorsa_core::quantum_crypto::ant_quic_integration::{generate_ml_dsa_keypair, ml_dsa_sign, ml_dsa_verify, MlDsaPublicKey, MlDsaSecretKey, MlDsaSignature};
use saorsa_core::security::{IPv4NodeID, IPv6NodeID};
use saorsa_core::upgrade::{PinnedKey, SignatureVerifier};
use serde::{Deserialize, Serialize};
use serde_json::Value;
use std::net::{Ipv4Addr, Ipv6Addr};
use std::time::{SystemTime, UNIX_EPOCH};

const ID: &str = "C08";

#[derive(Debug, Clone, Serialize, Deserialize, PartialEq)]
pub enum IdKind {
    Generated,
    Imported,
    FromSeed(u8),
    SecureGenerated,
    SecureFromSeed(u8),
    Derived(u8, Vec<u32>),
}
#[derive(Debug, Clone, Serialize, Deserialize)]
pub enum Tamper {
    None,
    MsgBit(u32),
    MsgAppend(u8),
    MsgTruncate,
    SigBit(u32),
    KeyBit(u32),
    OtherIdentity(IdKind),
}
#[derive(Debug, Clone, Serialize, Deserialize)]
pub enum Site {
    IdentityVerify,
    MlDsaFunctions,
    IpNodeId { v6: bool, field: u8, pos: u16 },
    /// `prior`: 0 = the key is pinned once; otherwise the same key id was pinned before (another identity, or this
    /// one with a closed validity window) and then pinned again with `add_key` - the later pin is the pinned key
    UpdateVerifier {
        mode: u8,
        #[serde(default)]
        prior: u8,
    },
    UpdateFile {
        mode: u8,
        #[serde(default)]
        prior: u8,
    },
    SingleAuth,
    DelegatedAuth { signer: u8, keys: u8 },
    ThresholdAuth { t: u8, n: u8, genuine: u8 },
    Composite { all: bool },
}
#[derive(Debug, Clone, Serialize, Deserialize)]
pub struct Case {
    kind: IdKind,
    msg: Vec<u8>,
    tamper: Tamper,
    site: Site,
}

struct Keys {
    pk: MlDsaPublicKey,
    sk: MlDsaSecretKey,
}

fn make(kind: &IdKind) -> Result<Keys, String> {
    let from_identity = |id: NodeIdentity| -> Result<Keys, String> {
        let d = id.export();
        Ok(Keys { pk: MlDsaPublicKey::from_bytes(&d.public_key).map_err(|e| format!("{e:?}"))?, sk: MlDsaSecretKey::from_bytes(&d.secret_key).map_err(|e| format!("{e:?}"))? })
    };
    match kind {
        IdKind::Generated => from_identity(NodeIdentity::generate().map_err(|e| e.to_string())?),
        IdKind::Imported => {
            let a = NodeIdentity::generate().map_err(|e| e.to_string())?;
            let b = NodeIdentity::import(&a.export()).map_err(|e| e.to_string())?;
            from_identity(b)
        }
        IdKind::FromSeed(s) => from_identity(NodeIdentity::from_seed(blake3::hash(&[*s, 8]).as_bytes()).map_err(|e| e.to_string())?),
        IdKind::SecureGenerated | IdKind::SecureFromSeed(_) => {
            let id = match kind {
                IdKind::SecureFromSeed(s) => SecureNodeIdentity::from_seed(blake3::hash(&[*s, 9]).as_bytes()),
                _ => SecureNodeIdentity::generate(),
            }
            .map_err(|e| e.to_string())?;
            let d = id.export();
            Ok(Keys { pk: MlDsaPublicKey::from_bytes(&d.public_key).map_err(|e| format!("{e:?}"))?, sk: MlDsaSecretKey::from_bytes(&d.secret_key).map_err(|e| format!("{e:?}"))? })
        }
        IdKind::Derived(s, path) => {
            let seed = MasterSeed::from_entropy(blake3::hash(&[*s, 10]).as_bytes()).map_err(|e| e.to_string())?;
            let mut h = HierarchicalKeyDerivation::new(seed);
            let p = DerivationPath::new(path.iter().take(6).cloned().collect()).map_err(|e| e.to_string())?;
            let k = h.derive_key(&p).map_err(|e| e.to_string())?;
            Ok(Keys { pk: k.public_key.clone(), sk: MlDsaSecretKey::from_bytes(k.secret_key.as_bytes()).map_err(|e| format!("{e:?}"))? })
        }
    }
}

fn kind_name(k: &IdKind) -> &'static str {
    match k {
        IdKind::Generated => "generated",
        IdKind::Imported => "imported",
        IdKind::FromSeed(_) => "from_seed",
        IdKind::SecureGenerated => "secure_generated",
        IdKind::SecureFromSeed(_) => "secure_from_seed",
        IdKind::Derived(..) => "derived_path",
    }
}
fn flip(bytes: &mut [u8], bit: u32) {
    if bytes.is_empty() {
        return;
    }
    let b = (bit as usize) % (bytes.len() * 8);
    bytes[b / 8] ^= 1 << (b % 8);
}
fn now() -> u64 {
    SystemTime::now().duration_since(UNIX_EPOCH).map(|d| d.as_secs()).unwrap_or(0)
}

/// Result of presenting (key, message, signature) at a site: accepted?
fn rt() -> tokio::runtime::Runtime {
    tokio::runtime::Builder::new_current_thread().enable_all().build().unwrap()
}

fn run_case(c: &Case) -> Verdict {
    let mut v = Verdict::new();
    let kn = kind_name(&c.kind);
    let keys = match make(&c.kind) {
        Ok(k) => k,
        Err(e) => {
            v.fail(format!("{ID}/identity/{kn}/construction-failed"), e);
            return v;
        }
    };
    let msg = c.msg.clone();
    let sig = match ml_dsa_sign(&keys.sk, &msg) {
        Ok(s) => s,
        Err(e) => {
            v.fail(format!("{ID}/ml_dsa_sign/{kn}/signing-failed"), format!("{e}"));
            return v;
        }
    };
    // apply the tamper
    let mut vmsg = msg.clone();
    let mut vsig = sig.0.to_vec();
    let mut vkey = keys.pk.as_bytes().to_vec();
    let mut tampered = true;
    let tname = match &c.tamper {
        Tamper::None => {
            tampered = false;
            "none"
        }
        Tamper::MsgBit(b) => {
            if vmsg.is_empty() {
                vmsg.push(1);
            } else {
                flip(&mut vmsg, *b);
            }
            "message-bit"
        }
        Tamper::MsgAppend(x) => {
            vmsg.push(*x);
            "message-extended"
        }
        Tamper::MsgTruncate => {
            if vmsg.pop().is_none() {
                vmsg.push(0);
            }
            "message-truncated"
        }
        Tamper::SigBit(b) => {
            flip(&mut vsig, *b);
            "signature-bit"
        }
        Tamper::KeyBit(b) => {
            flip(&mut vkey, *b);
            "key-bit"
        }
        Tamper::OtherIdentity(k2) => match make(k2) {
            Ok(o) => {
                if o.pk.as_bytes() == keys.pk.as_bytes() {
                    tampered = false;
                }
                vkey = o.pk.as_bytes().to_vec();
                "other-identity-key"
            }
            Err(_) => {
                tampered = false;
                "none"
            }
        },
    };
    let sig_arr = |b: &[u8]| -> Option<MlDsaSignature> { MlDsaSignature::from_bytes(b).ok() };
    let verdict = |v: &mut Verdict, site: &str, accepted: bool| {
        if tampered && accepted {
            v.fail(format!("{ID}/{site}/accepts-{tname}-tamper"), format!("identity {kn}, message {} bytes", msg.len()));
        }
        if !tampered && !accepted {
            v.fail(format!("{ID}/{site}/rejects-genuine-signature/{kn}"), format!("identity {:?}, message {} bytes", c.kind, msg.len()));
        }
    };
    match &c.site {
        Site::IdentityVerify | Site::MlDsaFunctions => {
            let acc = match (MlDsaPublicKey::from_bytes(&vkey), sig_arr(&vsig)) {
                (Ok(pk), Some(s)) => ml_dsa_verify(&pk, &vmsg, &s).unwrap_or(false),
                _ => false,
            };
            verdict(&mut v, "ml_dsa_verify", acc);
            // NodeIdentity::verify for identities that are NodeIdentity and an untampered key
            if matches!(c.site, Site::IdentityVerify) && matches!(c.kind, IdKind::Generated | IdKind::Imported | IdKind::FromSeed(_)) && !matches!(c.tamper, Tamper::KeyBit(_) | Tamper::OtherIdentity(_)) {
                let id = match &c.kind {
                    IdKind::FromSeed(s) => NodeIdentity::from_seed(blake3::hash(&[*s, 8]).as_bytes()).ok(),
                    _ => None,
                };
                if let Some(id) = id {
                    // deterministic identity: sign with the identity itself, verify with the identity itself
                    if let Ok(s2) = id.sign(&msg) {
                        let mut sb = s2.0.to_vec();
                        if let Tamper::SigBit(b) = &c.tamper {
                            flip(&mut sb, *b);
                        }
                        let acc2 = sig_arr(&sb).map(|s| id.verify(&vmsg, &s).unwrap_or(false)).unwrap_or(false);
                        verdict(&mut v, "NodeIdentity::verify", acc2);
                    }
                }
            }
        }
        Site::IpNodeId { v6, field, pos } => {
            // address-bound identity: generate with the real keys, then mutate one field
            let field = if tampered { 0 } else { *field % 7 };
            macro_rules! go {
                ($t:ty, $f:ident, $ip:expr, $ip2:expr) => {{
                    match <$t>::generate($ip, &keys.sk, &keys.pk) {
                        Err(e) => v.fail(format!("{ID}/IpNodeID::generate/{kn}/failed"), format!("{e}")),
                        Ok(mut n) => {
                            let genuine_ok = n.verify().unwrap_or(false);
                            if !genuine_ok {
                                v.fail(format!("{ID}/IpNodeID::verify/rejects-genuine-identity/{kn}"), format!("{:?}", c.kind));
                            }
                            let what = match field {
                                1 => {
                                    flip(&mut n.node_id, *pos as u32);
                                    "node-id"
                                }
                                2 => {
                                    n.$f = $ip2;
                                    "ip-address"
                                }
                                3 => {
                                    flip(&mut n.public_key, *pos as u32 * 7);
                                    "public-key"
                                }
                                4 => {
                                    flip(&mut n.signature, *pos as u32 * 13);
                                    "signature"
                                }
                                5 => {
                                    n.timestamp_secs = n.timestamp_secs.wrapping_add(1 + *pos as u64);
                                    "timestamp"
                                }
                                6 => {
                                    flip(&mut n.salt, *pos as u32);
                                    "salt"
                                }
                                _ => "none",
                            };
                            if what != "none" && genuine_ok && n.verify().unwrap_or(false) {
                                v.fail(format!("{ID}/IpNodeID::verify/accepts-altered-{what}"), format!("v6={v6} pos={pos}"));
                            }
                            v.class(format!("ipnode_{what}"));
                        }
                    }
                }};
            }
            // address classes: documentation prefix, IPv4-mapped, IPv4-compatible, global, ULA
            let (a, b, cc, d) = ((*pos >> 8) as u8, *pos as u8, (*pos >> 3) as u8, 1 + (*pos % 250) as u8);
            let v6_base = match *pos % 5 {
                0 => Ipv6Addr::new(0x2001, 0xdb8, 0, 0, 0, 0, 0, 1 + *pos),
                1 => Ipv4Addr::new(a, b, cc, d).to_ipv6_mapped(),
                2 => Ipv4Addr::new(a | 1, b, cc, d).to_ipv6_compatible(),
                3 => Ipv6Addr::new(0x2a00 | (*pos & 0xff), *pos, 7, 0, 0, 0, *pos ^ 0x5a5a, 1),
                _ => Ipv6Addr::new(0xfd00, 0, 0, 0, 0, 0, 0, 1 + *pos),
            };
            if *v6 {
                go!(IPv6NodeID, ipv6_addr, v6_base, Ipv6Addr::new(0x2001, 0xdb8, 0, 0, 0, 0, 1, 1 + *pos));
            } else {
                go!(IPv4NodeID, ipv4_addr, Ipv4Addr::new(10, 1, (*pos >> 8) as u8, *pos as u8), Ipv4Addr::new(10, 2, (*pos >> 8) as u8, *pos as u8));
            }
            // the address field once more, with substitutions a bit flip does not reach: one flipped address bit,
            // the sibling textual family of the same 32 bits (IPv4-mapped <-> IPv4-compatible), and the same
            // fields re-typed between the IPv4 and the IPv6 identity
            if !tampered && field == 2 {
                if *v6 {
                    if let Ok(n) = IPv6NodeID::generate(v6_base, &keys.sk, &keys.pk) {
                        if n.verify().unwrap_or(false) {
                            let mut subs: Vec<(&str, Ipv6Addr)> = Vec::new();
                            let mut o = v6_base.octets();
                            let bit = (*pos as usize / 5) % 128;
                            o[bit / 8] ^= 1 << (bit % 8);
                            subs.push(("one-address-bit", Ipv6Addr::from(o)));
                            if let Some(v4) = v6_base.to_ipv4() {
                                let sib = if v6_base.to_ipv4_mapped().is_some() { v4.to_ipv6_compatible() } else { v4.to_ipv6_mapped() };
                                subs.push(("sibling-ipv4-embedding", sib));
                                // re-typed: the same fields presented as an IPv4 identity
                                let r = IPv4NodeID { node_id: n.node_id.clone(), ipv4_addr: v4, public_key: n.public_key.clone(), signature: n.signature.clone(), timestamp_secs: n.timestamp_secs, salt: n.salt.clone() };
                                if r.verify().unwrap_or(false) {
                                    v.fail(format!("{ID}/IpNodeID::verify/accepts-identity-retyped-between-ipv4-and-ipv6"), format!("IPv6 identity for {v6_base} verifies as an IPv4 identity for {v4}"));
                                }
                                v.class("ipnode_embedded_ipv4_address");
                            }
                            for (what, addr) in subs {
                                if addr == v6_base {
                                    continue;
                                }
                                let mut m = n.clone();
                                m.ipv6_addr = addr;
                                if m.verify().unwrap_or(false) {
                                    v.fail(format!("{ID}/IpNodeID::verify/accepts-altered-ip-address/{what}"), format!("identity made for {v6_base} verifies for {addr}"));
                                }
                            }
                        }
                    }
                } else {
                    let base = Ipv4Addr::new(a | 1, b, cc, d);
                    if let Ok(n) = IPv4NodeID::generate(base, &keys.sk, &keys.pk) {
                        if n.verify().unwrap_or(false) {
                            let mut o = base.octets();
                            let bit = (*pos as usize / 5) % 32;
                            o[bit / 8] ^= 1 << (bit % 8);
                            let mut m = n.clone();
                            m.ipv4_addr = Ipv4Addr::from(o);
                            if m.verify().unwrap_or(false) {
                                v.fail(format!("{ID}/IpNodeID::verify/accepts-altered-ip-address/one-address-bit"), format!("identity made for {base} verifies for {}", m.ipv4_addr));
                            }
                            for (what, addr) in [("mapped", base.to_ipv6_mapped()), ("compatible", base.to_ipv6_compatible())] {
                                let r = IPv6NodeID { node_id: n.node_id.clone(), ipv6_addr: addr, public_key: n.public_key.clone(), signature: n.signature.clone(), timestamp_secs: n.timestamp_secs, salt: n.salt.clone() };
                                if r.verify().unwrap_or(false) {
                                    v.fail(format!("{ID}/IpNodeID::verify/accepts-identity-retyped-between-ipv4-and-ipv6"), format!("IPv4 identity for {base} verifies as an IPv6 identity for the {what} address {addr}"));
                                }
                            }
                        }
                    }
                }
            }
        }
        Site::UpdateVerifier { mode, prior } | Site::UpdateFile { mode, prior } => {
            let b64 = base64::engine::general_purpose::STANDARD;
            let mut key = PinnedKey::new("release-key", b64.encode(&vkey));
            let mut key_id = "release-key";
            let mut expect_extra_reject = false;
            match mode % 5 {
                1 => {
                    key_id = "unknown-key";
                    expect_extra_reject = true;
                }
                2 => {
                    key.valid_from = now() + 3600;
                    expect_extra_reject = true;
                }
                3 => {
                    key.valid_from = 1;
                    key.valid_until = now().saturating_sub(3600);
                    expect_extra_reject = true;
                }
                4 => {
                    key.valid_from = now().saturating_sub(3600);
                    key.valid_until = now() + 3600;
                }
                _ => {}
            }
            let ver = if *prior == 0 {
                SignatureVerifier::new(vec![key])
            } else {
                // an earlier pin under the same id, superseded by `key`
                let mut old = match prior % 4 {
                    0 => {
                        let (p, _) = generate_ml_dsa_keypair().unwrap();
                        PinnedKey::new("release-key", b64.encode(p.as_bytes()))
                    }
                    _ => PinnedKey::new("release-key", b64.encode(&keys.pk.as_bytes()[..])),
                };
                match prior % 4 {
                    2 => {
                        old.valid_from = 1;
                        old.valid_until = now().saturating_sub(3600);
                    }
                    3 => old.valid_from = now() + 3600,
                    _ => {}
                }
                let other = PinnedKey::new("another-key", old.public_key.clone());
                let mut ver = if prior % 8 < 4 {
                    SignatureVerifier::new(vec![old, other])
                } else {
                    let mut ver = SignatureVerifier::new(vec![other]);
                    ver.add_key(old);
                    ver
                };
                ver.add_key(key);
                v.class("pinned_again_under_the_same_id");
                ver
            };
            let sig_b64 = b64.encode(&vsig);
            if let Site::UpdateVerifier { .. } = c.site {
                let acc = ver.verify_signature(key_id, &vmsg, &sig_b64).unwrap_or(false);
                if expect_extra_reject {
                    if acc {
                        v.fail(format!("{ID}/SignatureVerifier::verify_signature/accepts-under-unknown-or-invalid-pinned-key"), format!("mode {}", mode % 5));
                    }
                } else {
                    verdict(&mut v, "SignatureVerifier::verify_signature", acc);
                }
            } else {
                let dir = tempfile::tempdir().unwrap();
                let path = dir.path().join("artifact.bin");
                // the file holds the (possibly tampered) content; the checksum is that of the genuine content
                std::fs::write(&path, &vmsg).unwrap();
                let sum = SignatureVerifier::calculate_checksum(&msg);
                let acc = rt().block_on(async { ver.verify_file(&path, &sum, key_id, &sig_b64).await.is_ok() });
                if expect_extra_reject {
                    if acc {
                        v.fail(format!("{ID}/SignatureVerifier::verify_file/accepts-under-unknown-or-invalid-pinned-key"), format!("mode {}", mode % 5));
                    }
                } else {
                    verdict(&mut v, "SignatureVerifier::verify_file", acc);
                }
                // wrong checksum with everything else genuine
                if !tampered && !expect_extra_reject {
                    let bad = SignatureVerifier::calculate_checksum(&[&msg[..], b"x"].concat());
                    let acc2 = rt().block_on(async { ver.verify_file(&path, &bad, key_id, &sig_b64).await.is_ok() });
                    if acc2 {
                        v.fail(format!("{ID}/SignatureVerifier::verify_file/accepts-wrong-checksum"), "checksum of different content".to_string());
                    }
                }
            }
            v.class(format!("pinned_mode_{}", mode % 5));
        }
        Site::SingleAuth => {
            let a = SingleWriteAuth::new(PubKey::new(vkey.clone()));
            let acc = rt().block_on(async { a.verify(&vmsg, &[Sig::new(vsig.clone())]).await.unwrap_or(false) });
            verdict(&mut v, "SingleWriteAuth::verify", acc);
        }
        Site::DelegatedAuth { signer, keys: nk } => {
            // authorised set: `nk` fresh keys, the genuine signer sits at position `signer` (or is an outsider)
            let nk = 1 + (*nk % 3) as usize;
            let mut set: Vec<PubKey> = Vec::new();
            for _ in 0..nk {
                let (p, _) = generate_ml_dsa_keypair().unwrap();
                set.push(PubKey::new(p.as_bytes().to_vec()));
            }
            let outsider = *signer as usize % (nk + 1) == nk;
            if !outsider {
                set[*signer as usize % nk] = PubKey::new(vkey.clone());
            }
            let a = DelegatedWriteAuth::new(set);
            let acc = rt().block_on(async { a.verify(&vmsg, &[Sig::new(vsig.clone())]).await.unwrap_or(false) });
            if outsider {
                if acc {
                    v.fail(format!("{ID}/DelegatedWriteAuth::verify/accepts-signature-of-unauthorised-key"), format!("{nk} authorised keys"));
                }
                v.class("delegated_outsider");
            } else {
                verdict(&mut v, "DelegatedWriteAuth::verify", acc);
            }
        }
        Site::ThresholdAuth { t, n, genuine } => {
            let n = 1 + (*n % 4) as usize;
            let t = 1 + (*t as usize % n);
            let mut pks = Vec::new();
            let mut sks = Vec::new();
            for _ in 0..n {
                let (p, s) = generate_ml_dsa_keypair().unwrap();
                pks.push(PubKey::new(p.as_bytes().to_vec()));
                sks.push(s);
            }
            let a = ThresholdWriteAuth::new(t, n, pks).expect("threshold auth");
            let g = (*genuine as usize) % (t + 1); // number of genuine signatures among t presented
            let mut sigs = Vec::new();
            for (i, sk) in sks.iter().enumerate().take(t) {
                if i < g {
                    sigs.push(Sig::new(ml_dsa_sign(sk, &vmsg).unwrap().0.to_vec()));
                } else {
                    sigs.push(Sig::new(vec![0xAB; 3309])); // not a signature of anything
                }
            }
            let acc = rt().block_on(async { a.verify(&vmsg, &sigs).await.unwrap_or(false) });
            if g == t {
                if !acc {
                    v.fail(format!("{ID}/ThresholdWriteAuth::verify/rejects-t-genuine-signatures"), format!("t={t} n={n}"));
                }
            } else if acc {
                v.fail(format!("{ID}/ThresholdWriteAuth::verify/accepts-unverified-signatures"), format!("t={t} n={n}: {g} genuine + {} garbage signatures accepted", t - g));
            }
            v.class("threshold");
        }
        Site::Composite { all } => {
            let (p2, s2) = generate_ml_dsa_keypair().unwrap();
            let a1: Box<dyn WriteAuth> = Box::new(SingleWriteAuth::new(PubKey::new(vkey.clone())));
            let a2: Box<dyn WriteAuth> = Box::new(SingleWriteAuth::new(PubKey::new(p2.as_bytes().to_vec())));
            let _ = s2;
            let comp = if *all { CompositeWriteAuth::all(vec![a1, a2]) } else { CompositeWriteAuth::any(vec![a2, a1]) };
            let acc = rt().block_on(async { comp.verify(&vmsg, &[Sig::new(vsig.clone())]).await.unwrap_or(false) });
            if *all {
                // one signature cannot satisfy two different keys
                if acc {
                    v.fail(format!("{ID}/CompositeWriteAuth::verify/all-satisfied-by-one-key"), "accepted".to_string());
                }
            } else {
                verdict(&mut v, "CompositeWriteAuth::verify(any)", acc);
            }
        }
    }
    v.nt(tampered || !matches!(c.site, Site::IdentityVerify | Site::MlDsaFunctions));
    v.class(format!("id_{kn}"));
    v.class(format!("tamper_{tname}"));
    v
}

fn id_kind() -> impl Strategy<Value = IdKind> {
    prop_oneof![
        3 => Just(IdKind::Generated),
        2 => Just(IdKind::Imported),
        3 => any::<u8>().prop_map(IdKind::FromSeed),
        1 => Just(IdKind::SecureGenerated),
        1 => any::<u8>().prop_map(IdKind::SecureFromSeed),
        3 => (any::<u8>(), prop::collection::vec(prop_oneof![0u32..5, Just(0x8000_0000u32), any::<u32>()], 0..5)).prop_map(|(s, p)| IdKind::Derived(s, p)),
    ]
}

pub fn run(run: &Run) {
    run.assume("built with debug assertions off (checked at start-up): the real ML-DSA-65 path is exercised; sampled bit flips do not argue unforgeability");
    run.set_rule("verify", "identity kind (generated / imported / from_seed / secure / derived path) × message 0..2048 bytes × tamper (one bit of message, signature or key; message extended/truncated; another identity's key) × call site (ml_dsa_*, NodeIdentity, IPv4/IPv6NodeID with each field altered, SignatureVerifier signature+file incl. unknown/not-yet-valid/expired pinned key, a key id pinned again with add_key (the later pin counts) and wrong checksum, Single/Delegated/Threshold/Composite WriteAuth); non-trivial = a tamper case or a non-primitive site; distinct by case hash");
    let sh = shards_for(run.tier);
    let make_case = || {
        let tamper = prop_oneof![
            4 => Just(Tamper::None),
            3 => any::<u32>().prop_map(Tamper::MsgBit),
            1 => any::<u8>().prop_map(Tamper::MsgAppend),
            1 => Just(Tamper::MsgTruncate),
            3 => any::<u32>().prop_map(Tamper::SigBit),
            3 => any::<u32>().prop_map(Tamper::KeyBit),
            2 => id_kind().prop_map(Tamper::OtherIdentity),
        ];
        let site = prop_oneof![
            4 => Just(Site::IdentityVerify),
            3 => Just(Site::MlDsaFunctions),
            3 => (any::<bool>(), 0u8..7, any::<u16>()).prop_map(|(v6, field, pos)| Site::IpNodeId { v6, field, pos }),
            2 => (0u8..5, prop_oneof![2 => Just(0u8), 1 => 1u8..=8]).prop_map(|(mode, prior)| Site::UpdateVerifier { mode, prior }),
            2 => (0u8..5, prop_oneof![2 => Just(0u8), 1 => 1u8..=8]).prop_map(|(mode, prior)| Site::UpdateFile { mode, prior }),
            2 => Just(Site::SingleAuth),
            2 => (any::<u8>(), any::<u8>()).prop_map(|(signer, keys)| Site::DelegatedAuth { signer, keys }),
            1 => (any::<u8>(), any::<u8>(), any::<u8>()).prop_map(|(t, n, genuine)| Site::ThresholdAuth { t, n, genuine }),
            1 => any::<bool>().prop_map(|all| Site::Composite { all }),
        ];
        let msg = prop_oneof![1 => Just(Vec::new()), 4 => prop::collection::vec(any::<u8>(), 1..64), 1 => prop::collection::vec(any::<u8>(), 64..2048)];
        (id_kind(), msg, tamper, site).prop_map(|(kind, msg, tamper, site)| Case { kind, msg, tamper, site })
    };
    run.prop_f("verify", run.tier.pick(36000, 600000), sh, make_case, run_case);
    // every bit position of one short message, for one seed-derived identity (thorough: also 4096 signature/key positions)
    let msg = b"exact message".to_vec();
    for bit in 0..(msg.len() as u32 * 8) {
        run.eval_case("all_message_bits", &Case { kind: IdKind::FromSeed(7), msg: msg.clone(), tamper: Tamper::MsgBit(bit), site: Site::MlDsaFunctions }, &run_case);
    }
    run.set_rule("all_message_bits", "every single-bit flip of one 13-byte message under a seed-derived identity (exhaustive over the 104 positions)");
    run.set_exhaustive("all_message_bits");
}

pub fn replay(run: &Run, sub: &str, case: &Value) -> Option<bool> {
    match sub {
        "verify" | "all_message_bits" => Some(run.eval_case("replay/verify", &from_value::<Case>(case)?, &run_case)),
        _ => None,
    }
}
