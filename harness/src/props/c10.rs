//! C10 — global trust is a well-formed distribution that moves with reported behaviour.
//! Oracle: distribution invariants, differential (two engines, one history),
//! get_trust agreement, metamorphic relations on one extra report.
use crate::engine::*;
use proptest::prelude::*;
use saorsa_core::adaptive::trust::{EigenTrustEngine, NodeStatisticsUpdate};
use saorsa_core::adaptive::{NodeId, TrustProvider};
use serde::{Deserialize, Serialize};
use serde_json::Value;
use std::collections::{HashMap, HashSet};
use std::time::Duration;

const ID: &str = "C10";

#[derive(Debug, Clone, Serialize, Deserialize, PartialEq)]
pub enum Stat {
    Uptime(u64),
    Correct,
    Failed,
    Unavailable,
    Corrupted,
    Violation,
    Storage(u64),
    Bandwidth(u64),
    Compute(u64),
}
impl Stat {
    pub fn to_update(&self) -> NodeStatisticsUpdate {
        match self {
            Stat::Uptime(x) => NodeStatisticsUpdate::Uptime(*x),
            Stat::Correct => NodeStatisticsUpdate::CorrectResponse,
            Stat::Failed => NodeStatisticsUpdate::FailedResponse,
            Stat::Unavailable => NodeStatisticsUpdate::DataUnavailable,
            Stat::Corrupted => NodeStatisticsUpdate::CorruptedData,
            Stat::Violation => NodeStatisticsUpdate::ProtocolViolation,
            Stat::Storage(x) => NodeStatisticsUpdate::StorageContributed(*x),
            Stat::Bandwidth(x) => NodeStatisticsUpdate::BandwidthContributed(*x),
            Stat::Compute(x) => NodeStatisticsUpdate::ComputeContributed(*x),
        }
    }
}
#[derive(Debug, Clone, Serialize, Deserialize, PartialEq)]
pub enum Op {
    Local(u16, u16, bool),
    Stats(u16, Stat),
    AddPre(u16),
    RemovePre(u16),
    RemoveNode(u16),
    Compute,
}
#[derive(Debug, Clone, Serialize, Deserialize)]
pub struct Case {
    pub n: u16,
    pub pre: Vec<u16>,
    pub ops: Vec<Op>,
    /// node (index) that receives the extra report in the metamorphic variants
    pub target: u16,
}

pub fn nid(i: u16) -> NodeId {
    let mut b = [0u8; 32];
    b[0] = (i >> 8) as u8;
    b[1] = i as u8;
    b[2] = 0x10;
    b[31] = (i as u8).wrapping_mul(37);
    NodeId::from_bytes(b)
}

pub async fn apply(e: &EigenTrustEngine, op: &Op, n: u16) {
    let m = |x: &u16| nid(*x % n.max(1));
    match op {
        Op::Local(a, b, ok) => e.update_local_trust(&m(a), &m(b), *ok).await,
        Op::Stats(a, s) => e.update_node_stats(&m(a), s.to_update()).await,
        Op::AddPre(a) => e.add_pre_trusted(m(a)).await,
        Op::RemovePre(a) => e.remove_pre_trusted(&m(a)).await,
        Op::RemoveNode(a) => {
            e.remove_node(&m(a));
            // remove_node only schedules a task; let it run
            tokio::time::sleep(Duration::from_millis(1)).await;
        }
        Op::Compute => {
            let _ = e.compute_global_trust().await;
        }
    }
}

pub async fn build(c: &Case, extra: &[Op]) -> (EigenTrustEngine, HashMap<NodeId, f64>) {
    let pre: HashSet<NodeId> = c.pre.iter().map(|x| nid(*x % c.n.max(1))).collect();
    let e = EigenTrustEngine::new(pre);
    for op in c.ops.iter().chain(extra.iter()) {
        apply(&e, op, c.n).await;
    }
    let m = e.compute_global_trust().await;
    (e, m)
}

static EQUAL_HISTORY_REBUILDS: std::sync::atomic::AtomicUsize = std::sync::atomic::AtomicUsize::new(1);

fn run_case(c: &Case) -> Verdict {
    let rt = paused_rt();
    rt.block_on(async {
        let mut v = Verdict::new();
        let n = c.n.max(1);
        let (e1, m1) = build(c, &[]).await;
        let site = "compute_global_trust";
        // model of who is known / removed / anchor
        let mut mentioned: HashSet<u16> = HashSet::new();
        let mut removed_ever: HashSet<u16> = HashSet::new();
        let mut pre: HashSet<u16> = c.pre.iter().map(|x| x % n).collect();
        let mut ever_pre = pre.clone();
        let mut edges = 0;
        let mut stats = 0;
        let mut live_edges: HashSet<(u16, u16)> = HashSet::new();
        let mut stat_nodes: HashSet<u16> = HashSet::new();
        for op in &c.ops {
            match op {
                Op::Local(a, b, _) => {
                    mentioned.insert(a % n);
                    mentioned.insert(b % n);
                    live_edges.insert((a % n, b % n));
                    edges += 1;
                }
                Op::Stats(a, _) => {
                    mentioned.insert(a % n);
                    stat_nodes.insert(a % n);
                    stats += 1;
                }
                Op::AddPre(a) => {
                    pre.insert(a % n);
                    ever_pre.insert(a % n);
                }
                Op::RemovePre(a) => {
                    pre.remove(&(a % n));
                }
                Op::RemoveNode(a) => {
                    removed_ever.insert(a % n);
                    live_edges.retain(|(x, y)| *x != a % n && *y != a % n);
                }
                Op::Compute => {}
            }
        }
        // 1. finite, in [0,1]
        for (k, s) in &m1 {
            if !(s.is_finite() && *s >= 0.0 && *s <= 1.0 + 1e-12) {
                v.fail(format!("{ID}/{site}/score-not-finite-or-outside-unit-interval"), format!("{k:?} → {s}"));
                break;
            }
        }
        // 2. sum
        let sum: f64 = m1.values().sum();
        let all_zero = m1.values().all(|s| *s == 0.0);
        if !(all_zero || (sum - 1.0).abs() <= 1e-9) {
            v.fail(format!("{ID}/{site}/scores-do-not-sum-to-one"), format!("Σ = {sum} over {} nodes (anchors {:?}, removed {:?})", m1.len(), pre, removed_ever));
        }
        // every node that was mentioned and never removed is scored
        let mut known: HashSet<u16> = stat_nodes.clone();
        for (a, b) in &live_edges {
            known.insert(*a);
            known.insert(*b);
        }
        for x in known.iter().filter(|x| !removed_ever.contains(x)) {
            if !m1.contains_key(&nid(*x)) {
                v.fail(format!("{ID}/{site}/known-node-missing-from-result"), format!("node {x} has edges or statistics but no score"));
                break;
            }
        }
        // 3. equal histories ⇒ equal scores
        // (each engine has its own hash-map order; the shipped code once let that order tip the convergence test,
        //  so a replay repeats the rebuild many times; the tolerance only allows for last-digit rounding)
        'again: for _ in 0..EQUAL_HISTORY_REBUILDS.load(std::sync::atomic::Ordering::Relaxed) {
            let (_e2, m2) = build(c, &[]).await;
            if m1.len() != m2.len() {
                v.fail(format!("{ID}/{site}/equal-histories-differ"), format!("{} vs {} entries", m1.len(), m2.len()));
                break;
            }
            for (k, s) in &m1 {
                let t = m2.get(k).copied().unwrap_or(f64::NAN);
                if !((s - t).abs() <= 1e-12) {
                    v.fail(format!("{ID}/{site}/equal-histories-differ"), format!("{k:?}: {s} vs {t}"));
                    break 'again;
                }
            }
        }
        // 4. per-peer query
        for (k, s) in &m1 {
            let g = e1.get_trust(k);
            if (g - s).abs() > 1e-12 {
                v.fail(format!("{ID}/get_trust/differs-from-last-computed-score"), format!("{k:?}: get_trust={g} computed={s}"));
                break;
            }
        }
        for x in 0..n.saturating_add(3) {
            let never = !mentioned.contains(&x) && !ever_pre.contains(&x);
            if never {
                let g = e1.get_trust(&nid(x));
                if g != 0.0 {
                    v.fail(format!("{ID}/get_trust/unknown-peer-not-zero"), format!("node {x} never mentioned: get_trust={g}"));
                    break;
                }
            }
        }
        // 5. metamorphic: one more report for the target
        let p = c.target % n;
        let base = m1.get(&nid(p)).copied();
        let score = |m: &HashMap<NodeId, f64>| m.get(&nid(p)).copied().unwrap_or(0.0);
        let (_, m_ok) = build(c, &[Op::Stats(p, Stat::Correct)]).await;
        let (_, m_fail) = build(c, &[Op::Stats(p, Stat::Failed)]).await;
        let (_, m_cor) = build(c, &[Op::Stats(p, Stat::Corrupted)]).await;
        let (_, m_vio) = build(c, &[Op::Stats(p, Stat::Violation)]).await;
        let b0 = base.unwrap_or(0.0);
        // A report about a node that already takes part in the iteration (it has an edge or statistics) changes only
        // its multiplier: the two runs differ by rounding alone.  The first report about an anchor that has neither
        // edges nor statistics makes it join the iterated set, so the two runs start from different vectors and stop
        // (L1 change < 1e-4) at different residues; there the comparison allows for that stopping rule.
        let takes_part = stat_nodes.contains(&p) || live_edges.iter().any(|(a, b)| *a == p || *b == p);
        let tol = if takes_part { 1e-12 } else { 1e-3 };
        if base.is_some() && !takes_part {
            v.class("target_joins_iterated_set");
        }
        let had_stats = c.ops.iter().any(|o| matches!(o, Op::Stats(a, _) if a % n == p));
        let tag = if had_stats { "" } else { "-first-report" };
        if base.is_some() {
            if score(&m_ok) < b0 - tol {
                v.fail(format!("{ID}/{site}/one-more-success-lowers-score{tag}"), format!("node {p}: {b0} → {} after one more CorrectResponse", score(&m_ok)));
            }
            if score(&m_fail) > b0 + tol {
                v.fail(format!("{ID}/{site}/one-more-failure-raises-score{tag}"), format!("node {p}: {b0} → {} after one more FailedResponse", score(&m_fail)));
            }
        }
        if score(&m_cor) > score(&m_fail) + tol {
            v.fail(format!("{ID}/{site}/corrupted-data-costs-less-than-failure"), format!("node {p}: after failure {} after corrupted-data {}", score(&m_fail), score(&m_cor)));
        }
        if score(&m_vio) > score(&m_fail) + tol {
            v.fail(format!("{ID}/{site}/protocol-violation-costs-less-than-failure"), format!("node {p}: after failure {} after protocol-violation {}", score(&m_fail), score(&m_vio)));
        }
        v.nt(m1.len() >= 3 && edges >= 1 && stats >= 1);
        if !removed_ever.is_empty() {
            v.class("with_remove_node");
        }
        if pre.is_empty() {
            v.class("no_anchor");
        }
        if all_zero && !m1.is_empty() {
            v.class("all_zero");
        }
        if m1.is_empty() {
            v.class("empty");
        }
        if base.is_some() && !had_stats {
            v.class("target_without_stats");
        }
        v.count("nodes", m1.len() as u64);
        v
    })
}

fn stat() -> impl Strategy<Value = Stat> {
    let amt = prop_oneof![3 => 0u64..100, 1 => 0u64..(1u64 << 40), 1 => Just(1u64 << 40), 1 => Just(86_400u64)];
    prop_oneof![
        4 => Just(Stat::Correct),
        3 => Just(Stat::Failed),
        1 => Just(Stat::Unavailable),
        1 => Just(Stat::Corrupted),
        1 => Just(Stat::Violation),
        1 => amt.clone().prop_map(Stat::Uptime),
        1 => amt.clone().prop_map(Stat::Storage),
        1 => amt.clone().prop_map(Stat::Bandwidth),
        1 => amt.prop_map(Stat::Compute),
    ]
}

pub fn case(max_n: u16, max_len: usize) -> impl Strategy<Value = Case> {
    (1u16..=max_n).prop_flat_map(move |n| {
        let op = prop_oneof![
            10 => (0..n, 0..n, prop::bool::weighted(0.8)).prop_map(|(a, b, ok)| Op::Local(a, b, ok)),
            8 => (0..n, stat()).prop_map(|(a, s)| Op::Stats(a, s)),
            1 => (0..n).prop_map(Op::AddPre),
            1 => (0..n).prop_map(Op::RemovePre),
            1 => (0..n).prop_map(Op::RemoveNode),
            1 => Just(Op::Compute),
        ];
        (prop::collection::vec(0..n, 0..4), prop::collection::vec(op, 0..max_len), 0..n).prop_map(move |(pre, ops, target)| Case { n, pre, ops, target })
    })
}

pub fn run(run: &Run) {
    run.assume("runs on tokio's paused clock, so the engine's internal 2 s timeout costs nothing and is deterministic");
    run.assume("monotonicity is asserted for statistics reports (CorrectResponse / FailedResponse / CorruptedData / ProtocolViolation), the mapping the network layer uses; pairwise local-trust statements are not claimed monotone");
    run.set_rule("history", "history of update_local_trust / update_node_stats (9 variants, amounts to 2^40) / add-remove anchor / remove_node / compute over n identities, then compute; 4 metamorphic variants with one extra report; non-trivial = ≥3 scored nodes, ≥1 edge and ≥1 statistics update; distinct by history hash");
    let sh = shards_for(run.tier);
    run.prop("history", run.tier.pick(120000, 600000), sh, case(20, 60), run_case);
    if run.tier == Tier::Thorough {
        run.prop("history", 400, sh, case(600, 2000), run_case);
    } else {
        run.prop("history", 40, sh, case(150, 400), run_case);
    }
}

pub fn replay(run: &Run, sub: &str, case: &Value) -> Option<bool> {
    match sub {
        "history" => {
            EQUAL_HISTORY_REBUILDS.store(300, std::sync::atomic::Ordering::Relaxed);
            let r = run.eval_case("replay/history", &from_value::<Case>(case)?, &run_case);
            EQUAL_HISTORY_REBUILDS.store(1, std::sync::atomic::Ordering::Relaxed);
            Some(r)
        }
        _ => None,
    }
}
