//! C13 — per-subnet and per-ASN admission caps are never exceeded; slots are returned.
//! (a) IPDiversityEnforcer vs reference counters; (b) routing-table admission path of
//! DhtCoreEngine (slot release on evict/failure, no partial admission, gate applied to
//! library-rendered addresses); (c) bootstrap-cache admission.
use crate::engine::*;
use proptest::prelude::*;
use saorsa_core::address::NetworkAddress;
use saorsa_core::bootstrap::{BootstrapConfig, BootstrapManager};
use saorsa_core::dht::core_engine::{DhtCoreEngine, NodeCapacity, NodeId, NodeInfo};
use saorsa_core::dht::geographic_routing::GeographicRegion;
use saorsa_core::dht::routing_maintenance::EvictionReason;
use saorsa_core::rate_limit::JoinRateLimiterConfig;
use saorsa_core::security::{GeoInfo, GeoProvider, IPDiversityConfig, IPDiversityEnforcer, IPv4Analysis, UnifiedIPAnalysis};
use serde::{Deserialize, Serialize};
use serde_json::Value;
use std::collections::HashMap;
use std::net::{IpAddr, Ipv4Addr, Ipv6Addr, SocketAddr};
use std::sync::Arc;
use std::time::SystemTime;

const ID: &str = "C13";

#[derive(Debug, Clone, Serialize, Deserialize, PartialEq, Eq, Hash)]
pub enum Cand {
    /// (/32 idx, /48 idx, /64 idx, host, asn idx 0=none, hosting, vpn)
    V6(u8, u8, u8, u8, u8, bool, bool),
    /// (/16 idx, /24 idx, host, asn idx 0=none, hosting, vpn)
    V4(u8, u8, u8, u8, bool, bool),
}
impl Cand {
    fn hosting(&self) -> bool {
        match self {
            Cand::V6(_, _, _, _, _, h, v) | Cand::V4(_, _, _, _, h, v) => *h || *v,
        }
    }
    fn asn(&self) -> Option<u32> {
        let a = match self {
            Cand::V6(_, _, _, _, a, _, _) | Cand::V4(_, _, _, a, _, _) => *a,
        };
        if a == 0 {
            None
        } else {
            Some(64_500 + a as u32)
        }
    }
    fn v6(&self) -> Option<Ipv6Addr> {
        match self {
            // attributes are carried in the interface id so the harness GeoProvider can decode them
            Cand::V6(a, b, c, h, asn, ho, vp) => Some(Ipv6Addr::new(0x2001, 0x0db0 + *a as u16, 0x10 + *b as u16, 0x20 + *c as u16, 0xa5a5, *asn as u16, (*ho as u16) | ((*vp as u16) << 1), *h as u16)),
            _ => None,
        }
    }
    fn v4(&self) -> Option<Ipv4Addr> {
        match self {
            Cand::V4(a, b, h, ..) => Some(Ipv4Addr::new(23, 50 + *a, 3 + *b, *h)),
            _ => None,
        }
    }
}

#[derive(Debug)]
struct HarnessGeo;
impl GeoProvider for HarnessGeo {
    fn lookup(&self, ip: Ipv6Addr) -> GeoInfo {
        let s = ip.segments();
        if s[4] != 0xa5a5 {
            return GeoInfo { asn: None, country: None, is_hosting_provider: false, is_vpn_provider: false };
        }
        GeoInfo { asn: if s[5] == 0 { None } else { Some(64_500 + s[5] as u32) }, country: Some(format!("C{}", s[1] & 3)), is_hosting_provider: s[6] & 1 == 1, is_vpn_provider: s[6] & 2 == 2 }
    }
}

#[derive(Debug, Clone, Serialize, Deserialize)]
pub enum CfgPick {
    Default,
    Testnet,
    Permissive,
    Small { c64: u8, c48: u8, c32: u8, v32: u8, v24: u8, v16: u8, cap: u8, frac_milli: u16, asn: u8 },
}
fn cfg_of(p: &CfgPick) -> IPDiversityConfig {
    match p {
        CfgPick::Default => IPDiversityConfig::default(),
        CfgPick::Testnet => IPDiversityConfig::testnet(),
        CfgPick::Permissive => IPDiversityConfig::permissive(),
        CfgPick::Small { c64, c48, c32, v32, v24, v16, cap, frac_milli, asn } => IPDiversityConfig {
            max_nodes_per_64: *c64 as usize,
            max_nodes_per_48: *c48 as usize,
            max_nodes_per_32: *c32 as usize,
            max_nodes_per_ipv4_32: *v32 as usize,
            max_nodes_per_ipv4_24: *v24 as usize,
            max_nodes_per_ipv4_16: *v16 as usize,
            max_per_ip_cap: *cap as usize,
            max_network_fraction: *frac_milli as f64 / 1000.0,
            max_nodes_per_asn: *asn as usize,
            enable_geolocation_check: true,
            min_geographic_diversity: 1,
        },
    }
}

/// Reference counters.
#[derive(Default, Clone)]
pub struct Model {
    v6_64: HashMap<[u8; 8], usize>,
    v6_48: HashMap<[u8; 6], usize>,
    v6_32: HashMap<[u8; 4], usize>,
    v4_32: HashMap<[u8; 4], usize>,
    v4_24: HashMap<[u8; 3], usize>,
    v4_16: HashMap<[u8; 2], usize>,
    asn: HashMap<u32, usize>,
    size: usize,
}
fn half(x: usize, hosting: bool) -> usize {
    if hosting {
        std::cmp::max(1, x / 2)
    } else {
        x
    }
}
impl Model {
    fn per_ip(&self, cfg: &IPDiversityConfig) -> usize {
        let f = (self.size as f64 * cfg.max_network_fraction).floor() as usize;
        std::cmp::min(cfg.max_per_ip_cap, std::cmp::max(1, f))
    }
    /// (level name, current count, cap for this candidate)
    fn levels(&self, cfg: &IPDiversityConfig, ip: IpAddr, asn: Option<u32>, hosting: bool) -> Vec<(&'static str, usize, usize)> {
        let mut out = Vec::new();
        match ip {
            IpAddr::V6(a) => {
                let o = a.octets();
                out.push(("ipv6/64", *self.v6_64.get(&o[..8]).unwrap_or(&0), half(cfg.max_nodes_per_64, hosting)));
                out.push(("ipv6/48", *self.v6_48.get(&o[..6]).unwrap_or(&0), half(cfg.max_nodes_per_48, hosting)));
                out.push(("ipv6/32", *self.v6_32.get(&o[..4]).unwrap_or(&0), half(cfg.max_nodes_per_32, hosting)));
            }
            IpAddr::V4(a) => {
                let o = a.octets();
                let p = self.per_ip(cfg);
                out.push(("ipv4/32", *self.v4_32.get(&o[..4]).unwrap_or(&0), half(p, hosting)));
                out.push(("ipv4/24", *self.v4_24.get(&o[..3]).unwrap_or(&0), half(std::cmp::min(cfg.max_nodes_per_ipv4_24, p.saturating_mul(3)), hosting)));
                out.push(("ipv4/16", *self.v4_16.get(&o[..2]).unwrap_or(&0), half(std::cmp::min(cfg.max_nodes_per_ipv4_16, p.saturating_mul(10)), hosting)));
            }
        }
        if let Some(n) = asn {
            out.push(("asn", *self.asn.get(&n).unwrap_or(&0), half(cfg.max_nodes_per_asn, hosting)));
        }
        out
    }
    fn can_accept(&self, cfg: &IPDiversityConfig, ip: IpAddr, asn: Option<u32>, hosting: bool) -> Option<&'static str> {
        self.levels(cfg, ip, asn, hosting).into_iter().find(|(_, c, cap)| c >= cap).map(|(n, _, _)| n)
    }
    fn bump(&mut self, ip: IpAddr, asn: Option<u32>, up: bool) {
        fn adj<K: std::hash::Hash + Eq>(m: &mut HashMap<K, usize>, k: K, up: bool) {
            if up {
                *m.entry(k).or_insert(0) += 1;
            } else if let Some(c) = m.get_mut(&k) {
                *c = c.saturating_sub(1);
                if *c == 0 {
                    m.remove(&k);
                }
            }
        }
        match ip {
            IpAddr::V6(a) => {
                let o = a.octets();
                adj(&mut self.v6_64, o[..8].try_into().unwrap(), up);
                adj(&mut self.v6_48, o[..6].try_into().unwrap(), up);
                adj(&mut self.v6_32, o[..4].try_into().unwrap(), up);
            }
            IpAddr::V4(a) => {
                let o = a.octets();
                adj(&mut self.v4_32, o, up);
                adj(&mut self.v4_24, o[..3].try_into().unwrap(), up);
                adj(&mut self.v4_16, o[..2].try_into().unwrap(), up);
            }
        }
        if let Some(n) = asn {
            adj(&mut self.asn, n, up);
        }
    }
    fn maxima(&self) -> [usize; 6] {
        let mx = |m: Vec<usize>| m.into_iter().max().unwrap_or(0);
        [
            mx(self.v6_64.values().cloned().collect()),
            mx(self.v6_48.values().cloned().collect()),
            mx(self.v6_32.values().cloned().collect()),
            mx(self.v4_32.values().cloned().collect()),
            mx(self.v4_24.values().cloned().collect()),
            mx(self.v4_16.values().cloned().collect()),
        ]
    }
}
fn stats_maxima(s: &saorsa_core::security::DiversityStats) -> [usize; 6] {
    [s.max_nodes_per_64, s.max_nodes_per_48, s.max_nodes_per_32, s.max_nodes_per_ipv4_32, s.max_nodes_per_ipv4_24, s.max_nodes_per_ipv4_16]
}

// ------------------------------ (a) enforcer ------------------------------
#[derive(Debug, Clone, Serialize, Deserialize)]
pub enum EOp {
    Add(Cand),
    Query(Cand),
    Remove(u16),
    SetSize(u32),
}
#[derive(Debug, Clone, Serialize, Deserialize)]
pub struct ECase {
    cfg: CfgPick,
    ops: Vec<EOp>,
}
fn analysis(enf: &IPDiversityEnforcer, c: &Cand) -> UnifiedIPAnalysis {
    match c {
        Cand::V6(..) => enf.analyze_unified(IpAddr::V6(c.v6().unwrap())).expect("analysis"),
        Cand::V4(_, _, _, _, h, v) => {
            let ip = c.v4().unwrap();
            let o = ip.octets();
            UnifiedIPAnalysis::IPv4(IPv4Analysis {
                ip_addr: ip,
                subnet_24: Ipv4Addr::new(o[0], o[1], o[2], 0),
                subnet_16: Ipv4Addr::new(o[0], o[1], 0, 0),
                subnet_8: Ipv4Addr::new(o[0], 0, 0, 0),
                asn: c.asn(),
                country: None,
                is_hosting_provider: *h,
                is_vpn_provider: *v,
                reputation_score: 0.5,
            })
        }
    }
}
fn cand_ip(c: &Cand) -> IpAddr {
    match c {
        Cand::V6(..) => IpAddr::V6(c.v6().unwrap()),
        Cand::V4(..) => IpAddr::V4(c.v4().unwrap()),
    }
}
fn run_enforcer(c: &ECase) -> Verdict {
    let mut v = Verdict::new();
    let cfg = cfg_of(&c.cfg);
    let mut enf = IPDiversityEnforcer::with_geo_provider(cfg.clone(), Arc::new(HarnessGeo));
    let mut m = Model::default();
    let mut admitted: Vec<(Cand, UnifiedIPAnalysis)> = Vec::new();
    let mut capped = false;
    let mut removal_after_cap = false;
    for (step, op) in c.ops.iter().enumerate() {
        match op {
            EOp::SetSize(n) => {
                enf.set_network_size(*n as usize);
                m.size = *n as usize;
                if enf.get_per_ip_limit() != m.per_ip(&cfg) {
                    v.fail(format!("{ID}/get_per_ip_limit/differs-from-network-size-rule"), format!("size {n}: {} vs {}", enf.get_per_ip_limit(), m.per_ip(&cfg)));
                }
            }
            EOp::Query(x) => {
                let a = analysis(&enf, x);
                let got = enf.can_accept_unified(&a);
                let block = m.can_accept(&cfg, cand_ip(x), x.asn(), x.hosting());
                if got != block.is_none() {
                    v.fail(format!("{ID}/can_accept_unified/{}", if got { "says-yes-at-or-above-cap" } else { "says-no-below-all-caps" }), format!("step {step}: {x:?} model blocking level {block:?}"));
                }
            }
            EOp::Add(x) => {
                let a = analysis(&enf, x);
                let res = enf.add_unified(&a);
                let block = m.can_accept(&cfg, cand_ip(x), x.asn(), x.hosting());
                match (res.is_ok(), block) {
                    (true, Some(level)) => v.fail(format!("{ID}/add_unified/admitted-at-or-above-cap/{level}"), format!("step {step}: {x:?} levels {:?}", m.levels(&cfg, cand_ip(x), x.asn(), x.hosting()))),
                    (false, None) => v.fail(format!("{ID}/add_unified/refused-below-all-caps"), format!("step {step}: {x:?} levels {:?}", m.levels(&cfg, cand_ip(x), x.asn(), x.hosting()))),
                    (true, None) => {
                        m.bump(cand_ip(x), x.asn(), true);
                        admitted.push((x.clone(), a));
                    }
                    (false, Some(_)) => {
                        capped = true;
                    }
                }
            }
            EOp::Remove(i) => {
                if !admitted.is_empty() {
                    let (x, a) = admitted.remove(idx(*i, admitted.len()));
                    enf.remove_unified(&a);
                    m.bump(cand_ip(&x), x.asn(), false);
                    if capped {
                        removal_after_cap = true;
                    }
                }
            }
        }
        let st = enf.get_diversity_stats();
        if stats_maxima(&st) != m.maxima() {
            v.fail(format!("{ID}/get_diversity_stats/counters-differ-from-model"), format!("step {step} {op:?}: stats {:?} model {:?}", stats_maxima(&st), m.maxima()));
        }
        let totals = [st.total_64_subnets, st.total_48_subnets, st.total_32_subnets, st.total_ipv4_32, st.total_ipv4_24_subnets, st.total_ipv4_16_subnets, st.total_asns];
        let mt = [m.v6_64.len(), m.v6_48.len(), m.v6_32.len(), m.v4_32.len(), m.v4_24.len(), m.v4_16.len(), m.asn.len()];
        if totals != mt {
            v.fail(format!("{ID}/get_diversity_stats/tracked-prefix-counts-differ-from-model"), format!("step {step} {op:?}: stats {totals:?} model {mt:?}"));
        }
        if !v.ok() {
            break;
        }
    }
    v.nt(capped && removal_after_cap);
    v.class(match c.cfg {
        CfgPick::Default => "cfg_default",
        CfgPick::Testnet => "cfg_testnet",
        CfgPick::Permissive => "cfg_permissive",
        CfgPick::Small { .. } => "cfg_small",
    });
    if capped {
        v.class("reached_a_cap");
    }
    v
}

// ------------------------------ (b) routing-table path ------------------------------
#[derive(Debug, Clone, Serialize, Deserialize)]
pub enum Render {
    SocketAddr,
    BareIp,
    LibraryDisplay,
}
#[derive(Debug, Clone, Serialize, Deserialize)]
pub enum ROp {
    /// (id bucket, id seed, address, rendering)
    Add(u8, u8, Cand, Render),
    Evict(u16),
    Fail(u16),
    /// a listed peer (picked by index) is added again under new contact details
    ReAdd(u16, Cand, Render),
}
#[derive(Debug, Clone, Serialize, Deserialize)]
pub struct RCase {
    ops: Vec<ROp>,
}
fn render(ip: IpAddr, r: &Render) -> String {
    let sa = SocketAddr::new(ip, 9000);
    match r {
        Render::SocketAddr => sa.to_string(),
        Render::BareIp => ip.to_string(),
        Render::LibraryDisplay => NetworkAddress::new(sa).to_string(),
    }
}
fn region_name(ip: IpAddr) -> String {
    format!("{:?}", GeographicRegion::from_ip(ip))
}
fn run_routing(c: &RCase) -> Verdict {
    let rt = paused_rt();
    rt.block_on(async {
        let mut v = Verdict::new();
        let cfg = IPDiversityConfig::default();
        let local = [0u8; 32];
        let mut eng = DhtCoreEngine::verif_new_log_only(NodeId::from_bytes(local)).expect("engine");
        let mut m = Model::default();
        let mut regions: HashMap<String, usize> = HashMap::new();
        // admitted: (id, ip, bucket)
        let mut table: Vec<([u8; 32], IpAddr, usize)> = Vec::new();
        let mut capped = false;
        let mut removal_after_cap = false;
        let mut n_display = 0;
        for (step, op) in c.ops.iter().enumerate() {
            match op {
                ROp::Add(bucket, seed, cand, rend) => {
                    // the core engine analyses plain addresses: no ASN / hosting information there
                    let ip = cand_ip(cand);
                    let bucket = (*bucket % 6) as usize;
                    let id = super::c02::id_in_bucket(&local, bucket as u8, seed.wrapping_add(step as u8));
                    if table.iter().any(|(i, _, _)| *i == id) {
                        continue;
                    }
                    if matches!(rend, Render::LibraryDisplay) {
                        n_display += 1;
                    }
                    let addr = render(ip, rend);
                    let res = eng.add_node(NodeInfo { id: NodeId::from_bytes(id), address: addr.clone(), last_seen: SystemTime::now(), capacity: NodeCapacity::default() }).await;
                    let block = m.can_accept(&cfg, ip, None, false);
                    let region = region_name(ip);
                    let region_full = *regions.get(&region).unwrap_or(&0) >= 50;
                    let bucket_full = table.iter().filter(|(_, _, b)| *b == bucket).count() >= 8;
                    match (res.is_ok(), block) {
                        (true, Some(level)) => v.fail(format!("{ID}/DhtCoreEngine::add_node/admitted-at-or-above-cap/{level}"), format!("step {step}: address '{addr}' levels {:?}", m.levels(&cfg, ip, None, false))),
                        (true, None) => {
                            m.bump(ip, None, true);
                            *regions.entry(region).or_insert(0) += 1;
                            table.push((id, ip, bucket));
                        }
                        (false, None) => {
                            if !region_full && !bucket_full {
                                v.fail(format!("{ID}/DhtCoreEngine::add_node/refused-although-every-level-is-below-cap"), format!("step {step}: address '{addr}' levels {:?} region {} bucket {}/8: {}", m.levels(&cfg, ip, None, false), regions.get(&region_name(ip)).unwrap_or(&0), table.iter().filter(|(_, _, b)| *b == bucket).count(), res.err().map(|e| e.to_string()).unwrap_or_default()));
                            }
                        }
                        (false, Some(_)) => capped = true,
                    }
                }
                ROp::ReAdd(i, cand, rend) => {
                    if table.is_empty() {
                        continue;
                    }
                    let pos = idx(*i, table.len());
                    let (id, old_ip, bucket) = table[pos];
                    let ip = cand_ip(cand);
                    let addr = render(ip, rend);
                    let res = eng.add_node(NodeInfo { id: NodeId::from_bytes(id), address: addr.clone(), last_seen: SystemTime::now(), capacity: NodeCapacity::default() }).await;
                    // model: the old entry's slots are given back, then the new details are judged like a newcomer's
                    table.remove(pos);
                    m.bump(old_ip, None, false);
                    if let Some(c) = regions.get_mut(&region_name(old_ip)) {
                        *c = c.saturating_sub(1);
                    }
                    let block = m.can_accept(&cfg, ip, None, false);
                    let region_full = *regions.get(&region_name(ip)).unwrap_or(&0) >= 50;
                    match (res.is_ok(), block) {
                        (true, Some(level)) => v.fail(format!("{ID}/DhtCoreEngine::add_node/re-added-peer-admitted-at-or-above-cap/{level}"), format!("step {step}: peer moved from {old_ip} to '{addr}': levels {:?}", m.levels(&cfg, ip, None, false))),
                        (true, None) => {
                            m.bump(ip, None, true);
                            *regions.entry(region_name(ip)).or_insert(0) += 1;
                            table.push((id, ip, bucket));
                        }
                        (false, None) => {
                            if !region_full {
                                v.fail(format!("{ID}/DhtCoreEngine::add_node/re-added-peer-refused-although-every-level-is-below-cap"), format!("step {step}: peer moved from {old_ip} to '{addr}': levels {:?}", m.levels(&cfg, ip, None, false)));
                            }
                        }
                        (false, Some(_)) => capped = true,
                    }
                    removal_after_cap |= capped;
                }
                ROp::Evict(i) | ROp::Fail(i) => {
                    if !table.is_empty() {
                        let (id, ip, _) = table.remove(idx(*i, table.len()));
                        if matches!(op, ROp::Evict(_)) {
                            let _ = eng.evict_node(&NodeId::from_bytes(id), EvictionReason::Stale).await;
                        } else {
                            let _ = eng.handle_node_failure(NodeId::from_bytes(id)).await;
                        }
                        m.bump(ip, None, false);
                        if let Some(c) = regions.get_mut(&region_name(ip)) {
                            *c = c.saturating_sub(1);
                        }
                        if capped {
                            removal_after_cap = true;
                        }
                    }
                }
            }
            let st = eng.verif_diversity_stats().await;
            if stats_maxima(&st) != m.maxima() {
                let kind = match op {
                    ROp::Add(..) => "after-add",
                    ROp::ReAdd(..) => "after-re-add-of-a-listed-peer",
                    _ => "after-removal",
                };
                v.fail(format!("{ID}/DhtCoreEngine/ip-slot-counters-differ-from-admitted-nodes/{kind}"), format!("step {step} {op:?}: counters {:?}, admitted nodes give {:?}", stats_maxima(&st), m.maxima()));
            }
            if !v.ok() {
                break;
            }
        }
        v.nt(capped && removal_after_cap);
        if n_display > 0 {
            v.class("library_rendered_address");
        }
        if capped {
            v.class("reached_a_cap");
        }
        v
    })
}

// ------------------------------ (c) bootstrap cache ------------------------------
#[derive(Debug, Clone, Serialize, Deserialize)]
pub struct BCase {
    cfg: CfgPick,
    peers: Vec<Cand>,
    /// Some(g): the join rate limiter is binding - a global burst of g joins, no refill worth mentioning - so some
    /// candidates are refused by the *other* gate of add_peer; such a refusal must consume no diversity slot
    #[serde(default)]
    global_burst: Option<u8>,
    /// Some(n): at most n joins per IPv4 /24 (and /64) per hour
    #[serde(default)]
    per_subnet: Option<u8>,
}
fn run_bootstrap(c: &BCase) -> Verdict {
    let rt = tokio::runtime::Builder::new_current_thread().enable_all().build().unwrap();
    rt.block_on(async {
        let mut v = Verdict::new();
        let cfg = cfg_of(&c.cfg);
        let dir = tempfile::tempdir().unwrap();
        let big = 1_000_000;
        let sub = c.per_subnet.map(|n| 1 + n as u32 % 4).unwrap_or(big);
        let bc = BootstrapConfig {
            cache_dir: dir.path().to_path_buf(),
            max_peers: 1000,
            epsilon: 0.1,
            rate_limit: JoinRateLimiterConfig {
                max_joins_per_64_per_hour: sub,
                max_joins_per_48_per_hour: big,
                max_joins_per_24_per_hour: sub,
                max_global_joins_per_minute: if c.global_burst.is_some() { 1 } else { big },
                global_burst_size: c.global_burst.map(|g| 1 + g as u32 % 6).unwrap_or(big),
            },
            diversity: cfg.clone(),
        };
        let limiter_binding = c.global_burst.is_some() || c.per_subnet.is_some();
        let mut limiter_refusals = 0u64;
        let mgr = match BootstrapManager::with_config(bc).await {
            Ok(m) => m,
            Err(e) => {
                v.class(format!("manager_unavailable:{e}"));
                return v;
            }
        };
        let mut m = Model::default();
        let mut capped = false;
        for (i, cand) in c.peers.iter().enumerate() {
            // the bootstrap manager has no geo provider: no ASN / hosting attributes
            let ip = match cand {
                Cand::V6(a, b, cc, h, ..) => IpAddr::V6(Ipv6Addr::new(0x2001, 0x0db0 + *a as u16, 0x10 + *b as u16, 0x20 + *cc as u16, 0, 0, 0, *h as u16 + 1)),
                Cand::V4(..) => cand_ip(cand),
            };
            let mut pid = [0u8; 32];
            pid[0] = i as u8;
            pid[1] = (i >> 8) as u8;
            pid[31] = 0x13;
            let res = mgr.add_peer(hex::encode(pid), vec![SocketAddr::new(ip, 9000)]).await;
            let block = m.can_accept(&cfg, ip, None, false);
            // add_peer has two gates that answer with the same error variant; the join rate limiter's refusals are
            // told from the diversity gate's by their text. A limiter refusal is no admission: the model stays.
            let by_limiter = limiter_binding && res.as_ref().err().map(|e| !e.to_string().to_lowercase().contains("diversity")).unwrap_or(false);
            if by_limiter {
                limiter_refusals += 1;
                continue;
            }
            match (res.is_ok(), block) {
                (true, Some(level)) => v.fail(format!("{ID}/BootstrapManager::add_peer/admitted-at-or-above-cap/{level}"), format!("peer #{i} {ip}: levels {:?}", m.levels(&cfg, ip, None, false))),
                (false, None) => v.fail(format!("{ID}/BootstrapManager::add_peer/refused-although-every-level-is-below-cap/{}", if ip.is_ipv4() { "ipv4" } else { "ipv6" }), format!("peer #{i} {ip}: levels {:?}: {}", m.levels(&cfg, ip, None, false), res.err().map(|e| e.to_string()).unwrap_or_default())),
                (true, None) => m.bump(ip, None, true),
                (false, Some(_)) => capped = true,
            }
            if !v.ok() {
                break;
            }
        }
        v.nt(capped || limiter_refusals > 0);
        if limiter_refusals > 0 {
            v.class("some_joins_refused_by_the_rate_limiter");
        }
        v
    })
}

fn cand() -> impl Strategy<Value = Cand> {
    prop_oneof![
        1 => (0u8..2, 0u8..3, 0u8..4, 0u8..6, prop_oneof![2 => Just(0u8), 3 => 1u8..4], prop::bool::weighted(0.25), prop::bool::weighted(0.1)).prop_map(|(a, b, c, h, asn, ho, vp)| Cand::V6(a, b, c, h, asn, ho, vp)),
        1 => (0u8..2, 0u8..4, 0u8..5, prop_oneof![2 => Just(0u8), 3 => 1u8..4], prop::bool::weighted(0.25), prop::bool::weighted(0.1)).prop_map(|(a, b, h, asn, ho, vp)| Cand::V4(a, b, h, asn, ho, vp)),
    ]
}
fn cfg_pick() -> impl Strategy<Value = CfgPick> {
    prop_oneof![
        3 => Just(CfgPick::Default),
        1 => Just(CfgPick::Testnet),
        1 => Just(CfgPick::Permissive),
        4 => (1u8..=5, 1u8..=5, 1u8..=5, 1u8..=5, 1u8..=5, 1u8..=5, 1u8..=5, 0u16..=1000, 1u8..=5).prop_map(|(c64, c48, c32, v32, v24, v16, cap, frac_milli, asn)| CfgPick::Small { c64, c48, c32, v32, v24, v16, cap, frac_milli, asn }),
    ]
}

pub fn run(run: &Run) {
    run.assume("only nodes that were admitted are removed (callers' precondition); tracking stays far below the 50k-entry bound");
    run.assume("core-engine and bootstrap paths have no GeoIP source, so ASN/hosting attributes are exercised on the enforcer sub-check only");
    run.set_rule("enforcer", "config (default/testnet/permissive/random caps 1..5) × history of analyse+add / can_accept / remove / set_network_size over IPv4+IPv6 addresses from nested prefix pools with ASN/hosting/VPN attributes; reference counters compared after every step; non-trivial = some level reached its cap and a removal followed");
    run.set_rule("routing", "add / evict / failure histories on a LogOnly DhtCoreEngine with addresses rendered as ip:port, bare ip, or NetworkAddress::to_string(); ids in 6 buckets so buckets fill; counters read through the verif accessor; non-trivial = cap reached then a removal");
    run.set_rule("bootstrap", "BootstrapManager::add_peer over IPv4/IPv6 peers with the join rate limiter non-binding, or binding (a global burst of 1..6 joins and/or 1..4 joins per /24 and /64 per hour): a join refused by the limiter must consume no diversity slot, every other verdict must match the reference counters; non-trivial = a cap was reached or the limiter refused a join");
    let sh = shards_for(run.tier);
    let len = run.tier.pick(80usize, 1500);
    let eop = prop_oneof![10 => cand().prop_map(EOp::Add), 2 => cand().prop_map(EOp::Query), 4 => any::<u16>().prop_map(EOp::Remove), 1 => prop_oneof![Just(0u32), 0u32..2000, Just(100_000u32)].prop_map(EOp::SetSize)];
    let ecase = (cfg_pick(), prop::collection::vec(eop, 1..len)).prop_map(|(cfg, ops)| ECase { cfg, ops });
    run.prop("enforcer", run.tier.pick(50000, 400000), sh, ecase, run_enforcer);

    let rend = prop_oneof![3 => Just(Render::SocketAddr), 1 => Just(Render::BareIp), 2 => Just(Render::LibraryDisplay)];
    let rop = prop_oneof![8 => (0u8..6, any::<u8>(), cand(), rend.clone()).prop_map(|(b, s, c, r)| ROp::Add(b, s, c, r)), 2 => any::<u16>().prop_map(ROp::Evict), 2 => any::<u16>().prop_map(ROp::Fail), 3 => (any::<u16>(), cand(), rend).prop_map(|(i, c, r)| ROp::ReAdd(i, c, r))];
    let rcase = prop::collection::vec(rop, 1..run.tier.pick(60usize, 400)).prop_map(|ops| RCase { ops });
    run.prop("routing", run.tier.pick(12500, 80000), sh, rcase, run_routing);

    let bcase = (cfg_pick(), prop::collection::vec(cand(), 1..run.tier.pick(30usize, 120)), prop::option::weighted(0.3, any::<u8>()), prop::option::weighted(0.3, any::<u8>())).prop_map(|(cfg, peers, global_burst, per_subnet)| BCase { cfg, peers, global_burst, per_subnet });
    run.prop("bootstrap", run.tier.pick(3750, 15000), sh, bcase, run_bootstrap);
}

pub fn replay(run: &Run, sub: &str, case: &Value) -> Option<bool> {
    match sub {
        "enforcer" => Some(run.eval_case("replay/enforcer", &from_value::<ECase>(case)?, &run_enforcer)),
        "routing" => Some(run.eval_case("replay/routing", &from_value::<RCase>(case)?, &run_routing)),
        "bootstrap" => Some(run.eval_case("replay/bootstrap", &from_value::<BCase>(case)?, &run_bootstrap)),
        _ => None,
    }
}
