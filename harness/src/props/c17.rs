//! C17 — placement returns exactly k distinct diverse candidates or an error.
//! Oracle: validity predicate over the output (size, distinctness, membership,
//! ≤2/region, ≤3/ASN, pairwise ≥50 km — haversine recomputed here), no panic;
//! sampler: without replacement + a coarse statistical preference test.
use crate::engine::*;
use proptest::prelude::*;
use saorsa_core::adaptive::performance::PerformanceMonitor;
use saorsa_core::adaptive::trust::EigenTrustEngine;
use saorsa_core::adaptive::NodeId;
use saorsa_core::placement::algorithms::{WeightedPlacementStrategy, WeightedSampler};
use saorsa_core::placement::{GeographicLocation, NetworkRegion, OptimizationWeights, PlacementConfig, PlacementEngine, PlacementStrategy};
use serde::{Deserialize, Serialize};
use serde_json::Value;
use std::collections::{HashMap, HashSet};

const ID: &str = "C17";

#[derive(Debug, Clone, Serialize, Deserialize)]
pub enum F {
    Zero,
    One,
    Neg,
    Inf,
    NegInf,
    NaN,
    Tiny,
    Huge,
    Val(f64),
}
impl F {
    fn get(&self) -> f64 {
        match self {
            F::Zero => 0.0,
            F::One => 1.0,
            F::Neg => -1.5,
            F::Inf => f64::INFINITY,
            F::NegInf => f64::NEG_INFINITY,
            F::NaN => f64::NAN,
            F::Tiny => 1e-300,
            F::Huge => 1e300,
            F::Val(v) => *v,
        }
    }
}
fn fpick() -> impl Strategy<Value = F> {
    prop_oneof![
        10 => Just(F::One),
        2 => Just(F::Zero),
        1 => Just(F::Neg),
        1 => Just(F::Inf),
        1 => Just(F::NegInf),
        1 => Just(F::NaN),
        1 => Just(F::Tiny),
        1 => Just(F::Huge),
        4 => (0.0f64..5.0).prop_map(F::Val),
    ]
}

#[derive(Debug, Clone, Serialize, Deserialize)]
pub struct Cand {
    id: u16,
    lat_md: i32, // millidegrees
    lon_md: i32,
    asn: u8,
    /// 0..=7 explicit region, 8 = derived from the coordinates
    region: u8,
    has_meta: bool,
}
#[derive(Debug, Clone, Serialize, Deserialize)]
pub struct Case {
    cands: Vec<Cand>,
    k: u8,
    weights: [F; 4],
    seed: u64,
    via_engine: bool,
}

const REGIONS: [NetworkRegion; 8] = [
    NetworkRegion::NorthAmerica,
    NetworkRegion::SouthAmerica,
    NetworkRegion::Europe,
    NetworkRegion::AsiaPacific,
    NetworkRegion::Africa,
    NetworkRegion::MiddleEast,
    NetworkRegion::Oceania,
    NetworkRegion::Unknown,
];
// a few city centres (lat, lon) in millidegrees
const CITIES: [(i32, i32); 10] = [
    (40_712, -74_006),
    (51_507, -127),
    (35_689, 139_692),
    (-33_868, 151_209),
    (-23_550, -46_633),
    (30_044, 31_235),
    (25_204, 55_270),
    (48_856, 2_352),
    (37_774, -122_419),
    (89_900, 0),
];

fn nid(id: u16) -> NodeId {
    let mut b = [0u8; 32];
    b[0] = (id >> 8) as u8;
    b[1] = id as u8;
    b[31] = 0x17;
    NodeId::from_bytes(b)
}

fn haversine(a: (f64, f64), b: (f64, f64)) -> f64 {
    let (la1, lo1) = (a.0.to_radians(), a.1.to_radians());
    let (la2, lo2) = (b.0.to_radians(), b.1.to_radians());
    let dlat = la2 - la1;
    let dlon = lo2 - lo1;
    let h = (dlat / 2.0).sin().powi(2) + la1.cos() * la2.cos() * (dlon / 2.0).sin().powi(2);
    2.0 * 6371.0 * h.sqrt().min(1.0).asin()
}

fn run_case(c: &Case) -> Verdict {
    let mut v = Verdict::new();
    fastrand::seed(c.seed);
    // distinct ids only (callers pass a set)
    let mut seen = HashSet::new();
    let cands: Vec<&Cand> = c.cands.iter().filter(|x| seen.insert(x.id)).collect();
    let set: HashSet<NodeId> = cands.iter().map(|x| nid(x.id)).collect();
    let mut meta: HashMap<NodeId, (GeographicLocation, u32, NetworkRegion)> = HashMap::new();
    let mut truth: HashMap<NodeId, ((f64, f64), u32, NetworkRegion)> = HashMap::new();
    for x in &cands {
        let lat = (x.lat_md as f64 / 1000.0).clamp(-90.0, 90.0);
        let lon = (x.lon_md as f64 / 1000.0).clamp(-180.0, 180.0);
        let loc = GeographicLocation::new(lat, lon).expect("valid coordinates by construction");
        let region = if x.region >= 8 { NetworkRegion::from_coordinates(&loc) } else { REGIONS[x.region as usize] };
        if x.has_meta {
            meta.insert(nid(x.id), (loc, 64_500 + x.asn as u32, region));
        }
        truth.insert(nid(x.id), ((lat, lon), 64_500 + x.asn as u32, region));
    }
    let mut cfg = PlacementConfig::default();
    cfg.optimization_weights = OptimizationWeights { trust_weight: c.weights[0].get(), performance_weight: c.weights[1].get(), capacity_weight: c.weights[2].get(), diversity_weight: c.weights[3].get() };
    let rt = tokio::runtime::Builder::new_current_thread().enable_all().build().unwrap();
    let site = if c.via_engine { "PlacementEngine::select_nodes" } else { "WeightedPlacementStrategy::select_nodes" };
    let res = rt.block_on(async {
        let trust = EigenTrustEngine::new(HashSet::new());
        let perf = PerformanceMonitor::new();
        if c.via_engine {
            let mut e = PlacementEngine::new(cfg.clone());
            e.select_nodes(&set, c.k, &trust, &perf, &meta).await
        } else {
            let mut s = WeightedPlacementStrategy::new(cfg.clone());
            s.select_nodes(&set, c.k, &trust, &perf, &meta).await
        }
    });
    let k = c.k as usize;
    match res {
        Err(e) => {
            let name = format!("{e:?}");
            v.class(format!("err_{}", name.split(|ch: char| !ch.is_alphanumeric()).next().unwrap_or("")));
        }
        Ok(d) => {
            v.class(if c.k >= 2 { "ok_k>=2" } else { "ok_k<2" });
            let sel = &d.selected_nodes;
            v.check(sel.len() == k, &format!("{ID}/{site}/wrong-number-of-nodes"), || format!("requested {k}, decision names {}", sel.len()));
            let uniq: HashSet<&NodeId> = sel.iter().collect();
            v.check(uniq.len() == sel.len(), &format!("{ID}/{site}/repeated-node"), || format!("{} names, {} distinct", sel.len(), uniq.len()));
            v.check(sel.iter().all(|n| set.contains(n)), &format!("{ID}/{site}/foreign-node"), || "a selected node is not among the candidates".into());
            let mut per_region: HashMap<NetworkRegion, usize> = HashMap::new();
            let mut per_asn: HashMap<u32, usize> = HashMap::new();
            for n in sel {
                if let Some((_, asn, reg)) = truth.get(n) {
                    *per_region.entry(*reg).or_insert(0) += 1;
                    *per_asn.entry(*asn).or_insert(0) += 1;
                }
                v.check(meta.contains_key(n), &format!("{ID}/{site}/node-without-metadata-selected"), || "selected node has no metadata".into());
            }
            for (r, n) in &per_region {
                v.check(*n <= 2, &format!("{ID}/{site}/more-than-two-per-region"), || format!("{n} nodes in {r:?}"));
            }
            for (a, n) in &per_asn {
                v.check(*n <= 3, &format!("{ID}/{site}/more-than-three-per-asn"), || format!("{n} nodes in AS{a}"));
            }
            for i in 0..sel.len() {
                for j in (i + 1)..sel.len() {
                    if let (Some(a), Some(b)) = (truth.get(&sel[i]), truth.get(&sel[j])) {
                        let d = haversine(a.0, b.0);
                        v.check(d >= 50.0 - 1e-6, &format!("{ID}/{site}/nodes-closer-than-50km"), || format!("{:?} and {:?} are {d:.3} km apart", a.0, b.0));
                    }
                }
            }
        }
    }
    // non-trivial: k ≥ 2 and at least two candidates collide on region / ASN / distance
    let mut collide = false;
    'o: for i in 0..cands.len() {
        for j in (i + 1)..cands.len() {
            let (a, b) = (&truth[&nid(cands[i].id)], &truth[&nid(cands[j].id)]);
            if a.1 == b.1 || a.2 == b.2 || haversine(a.0, b.0) < 50.0 {
                collide = true;
                break 'o;
            }
        }
    }
    v.nt(k >= 2 && collide && cands.len() >= k);
    if c.weights.iter().any(|w| !w.get().is_finite() || w.get() <= 0.0) {
        v.class("degenerate_weights");
    }
    v
}

// ---- sampler directly -----------------------------------------------------
#[derive(Debug, Clone, Serialize, Deserialize)]
pub struct SCase {
    weights: Vec<F>,
    k: u8,
    seed: u64,
}
fn run_sampler(c: &SCase) -> Verdict {
    let mut v = Verdict::new();
    fastrand::seed(c.seed);
    let cands: Vec<(NodeId, f64)> = c.weights.iter().enumerate().map(|(i, w)| (nid(i as u16), w.get())).collect();
    let ids: HashSet<NodeId> = cands.iter().map(|x| x.0.clone()).collect();
    let mut s = WeightedSampler::new();
    let k = c.k as usize;
    match s.sample_nodes(&cands, k) {
        Err(_) => v.class("error"),
        Ok(out) => {
            v.class("ok");
            v.check(out.len() == k, &format!("{ID}/WeightedSampler::sample_nodes/wrong-size"), || format!("k={k} got {}", out.len()));
            let u: HashSet<&NodeId> = out.iter().collect();
            v.check(u.len() == out.len(), &format!("{ID}/WeightedSampler::sample_nodes/drawn-with-replacement"), || "repeated id".into());
            v.check(out.iter().all(|n| ids.contains(n)), &format!("{ID}/WeightedSampler::sample_nodes/foreign-id"), || "id not in input".into());
        }
    }
    let degenerate = c.weights.iter().filter(|w| !w.get().is_finite() || w.get() <= 0.0).count();
    v.nt(k >= 2 && cands.len() > k);
    if degenerate > 0 {
        v.class("degenerate");
    }
    if c.weights.iter().filter(|w| w.get().is_nan()).count() >= 20 {
        v.class("nan>=20");
    }
    v
}

#[derive(Debug, Clone, Serialize, Deserialize)]
pub struct StatCase {
    seed: u64,
    light: u8,
    ratio: u8,
}
fn run_stat(c: &StatCase) -> Verdict {
    let mut v = Verdict::new();
    fastrand::seed(c.seed);
    let light = c.light.max(1) as usize;
    let ratio = c.ratio.max(8) as f64;
    // one heavy item among `light` light ones
    let mut cands: Vec<(NodeId, f64)> = (0..light).map(|i| (nid(i as u16 + 1), 1.0)).collect();
    let pos = (c.seed as usize) % (light + 1);
    cands.insert(pos, (nid(0), ratio));
    let mut s = WeightedSampler::new();
    let draws = 2000;
    let mut first = 0;
    for _ in 0..draws {
        if let Ok(o) = s.sample_nodes(&cands, 1) {
            if o.first() == Some(&nid(0)) {
                first += 1;
            }
        }
    }
    let p = ratio / (ratio + light as f64);
    let sigma = (p * (1.0 - p) / draws as f64).sqrt();
    let got = first as f64 / draws as f64;
    // one-sided: "favours heavier" = clearly above the uniform share; threshold is the midpoint between
    // the uniform share 1/(n+1) and the exact Efraimidis–Spirakis probability w/(w+n) (many σ from both)
    let uniform = 1.0 / (light as f64 + 1.0);
    let thr = (p + uniform) / 2.0;
    let _ = sigma;
    v.check(got >= thr, &format!("{ID}/WeightedSampler::sample_nodes/heavy-item-not-favoured"), || format!("heavy item (weight {ratio} vs {light}×1) drawn first in {got:.3} of {draws} draws; uniform share {uniform:.3}, exact {p:.3}, required ≥ {thr:.3}"));
    v.nt(true);
    v
}

fn cand() -> impl Strategy<Value = Cand> {
    let loc = prop_oneof![
        // clustered around a city: within ~±0.6° (tens of km)
        3 => (0usize..CITIES.len(), -600i32..600, -600i32..600).prop_map(|(c, a, b)| (CITIES[c].0 + a, CITIES[c].1 + b)),
        1 => (0usize..CITIES.len()).prop_map(|c| CITIES[c]),
        2 => (-90_000i32..=90_000, -180_000i32..=180_000),
    ];
    (any::<u16>(), loc, 0u8..5, prop_oneof![3 => 0u8..8, 2 => Just(8u8)], prop::bool::weighted(0.996)).prop_map(|(id, (lat_md, lon_md), asn, region, has_meta)| Cand { id: id % 512, lat_md: lat_md.clamp(-90_000, 90_000), lon_md: lon_md.clamp(-180_000, 180_000), asn, region, has_meta })
}

pub fn run(run: &Run) {
    run.assume("fastrand is seeded per case on the executing thread; the strategy's mock trust/stability/capacity inputs are the repository's own");
    run.set_rule("select", "0..60 candidates (clustered around 10 cities or spread), ASN pool of 5, explicit or coordinate-derived region, 3% without metadata; k 0..=20; optimisation weights incl. 0, negative, ±inf, NaN; both entry points; non-trivial = k≥2, enough candidates and ≥2 candidates sharing region/ASN or closer than 50 km");
    run.set_rule("sampler", "weight vectors of 1..40 entries incl. degenerate floats (and ≥20 NaNs to reach the sort's total-order check), k 0..=len+1; non-trivial = k≥2 and k<len");
    run.set_rule("sampler_stat", "one heavy item (weight 8..=40) among 1..12 unit-weight items, 2000 seeded draws; frequency of the heavy item must exceed the midpoint between the uniform share and w/(w+n)");
    let sh = shards_for(run.tier);
    let sane = || prop_oneof![3 => Just(F::One), 1 => Just(F::Zero), 3 => (0.0f64..5.0).prop_map(F::Val)];
    let weights = prop_oneof![3 => [sane(), sane(), sane(), sane()], 1 => [fpick(), fpick(), fpick(), fpick()]];
    let case = (prop::collection::vec(cand(), 0..60), prop_oneof![3 => 0u8..=8, 1 => 9u8..=20], weights, any::<u64>(), any::<bool>()).prop_map(|(cands, k, weights, seed, via_engine)| Case { cands, k, weights, seed, via_engine });
    run.prop("select", run.tier.pick(400000, 3200000), sh, case, run_case);
    let pos = || prop_oneof![2 => Just(F::One), 1 => Just(F::Tiny), 1 => Just(F::Huge), 1 => Just(F::Inf), 4 => (0.001f64..50.0).prop_map(F::Val)];
    let wv = prop_oneof![
        5 => prop::collection::vec(pos(), 1..40),
        3 => prop::collection::vec(fpick(), 1..40),
        1 => (prop::collection::vec(Just(F::NaN), 20..40), prop::collection::vec(fpick(), 0..10)).prop_map(|(mut a, b)| { a.extend(b); a }),
        1 => prop::collection::vec(prop_oneof![Just(F::NaN), Just(F::One), Just(F::Inf)], 20..60),
    ];
    let scase = (wv, 0u8..45, any::<u64>()).prop_map(|(weights, k, seed)| { let k = k.min(weights.len() as u8 + 1); SCase { weights, k, seed } });
    run.prop("sampler", run.tier.pick(600000, 6000000), sh, scase, run_sampler);
    let stat = (any::<u64>(), 1u8..=12, 8u8..=40).prop_map(|(seed, light, ratio)| StatCase { seed, light, ratio });
    run.prop("sampler_stat", run.tier.pick(6000, 60000), sh, stat, run_stat);
}

pub fn replay(run: &Run, sub: &str, case: &Value) -> Option<bool> {
    match sub {
        "select" => Some(run.eval_case("replay/select", &from_value::<Case>(case)?, &run_case)),
        "sampler" => Some(run.eval_case("replay/sampler", &from_value::<SCase>(case)?, &run_sampler)),
        "sampler_stat" => Some(run.eval_case("replay/sampler_stat", &from_value::<StatCase>(case)?, &run_stat)),
        _ => None,
    }
}
