//! C14 — join and request rate limits hold for every arrival pattern.
//! Oracle: interval arithmetic on *measured* elapsed time (upper bounds are
//! computed from an elapsed time that over-approximates what the limiter saw,
//! so they can never be flaky) plus a fresh-key lower bound (keys do not share budget).
use crate::engine::*;
use proptest::prelude::*;
use saorsa_core::rate_limit::{Engine, EngineConfig, JoinRateLimiter, JoinRateLimiterConfig};
use saorsa_core::validation::{RateLimitConfig, RateLimiter};
use serde::{Deserialize, Serialize};
use serde_json::Value;
use std::collections::{HashMap, HashSet};
use std::net::{IpAddr, Ipv4Addr, Ipv6Addr};
use std::sync::Mutex;
use std::time::{Duration, Instant};

const ID: &str = "C14";

#[derive(Debug, Clone, Serialize, Deserialize)]
pub struct ECfg {
    max: u32,
    burst: u32,
    /// 0 = 30 ms, 1 = 1 s, 2 = 1 h
    window: u8,
}
impl ECfg {
    fn window(&self) -> Duration {
        match self.window % 3 {
            0 => Duration::from_millis(30),
            1 => Duration::from_secs(1),
            _ => Duration::from_secs(3600),
        }
    }
}
#[derive(Debug, Clone, Serialize, Deserialize)]
pub enum EOp {
    Key(u8),
    Global,
    SleepMs(u8),
}
#[derive(Debug, Clone, Serialize, Deserialize)]
pub struct ECase {
    cfg: ECfg,
    threads: u8,
    ops: Vec<EOp>,
}

/// admitted ≤ burst + elapsed·max/window  and  admitted ≤ max·(⌊elapsed/window⌋+1)
fn upper(cfg_max: u32, burst: u32, window: Duration, elapsed: Duration) -> (f64, u64) {
    let a = burst as f64 + elapsed.as_secs_f64() * cfg_max as f64 / window.as_secs_f64() + 1e-6;
    let b = cfg_max as u64 * ((elapsed.as_nanos() / window.as_nanos().max(1)) as u64 + 1);
    (a, b)
}

fn run_engine(c: &ECase) -> Verdict {
    let mut v = Verdict::new();
    let window = c.cfg.window();
    let t0 = Instant::now();
    let eng: Engine<u8> = Engine::new(EngineConfig { window, max_requests: c.cfg.max, burst_size: c.cfg.burst });
    // (key or None for global) → (attempts, admitted)
    let stats: Mutex<HashMap<Option<u8>, (u64, u64)>> = Mutex::new(HashMap::new());
    let fails: Mutex<Vec<(String, String)>> = Mutex::new(Vec::new());
    let threads = c.threads.max(1) as usize;
    let apply = |ops: &[EOp]| {
        for op in ops {
            match op {
                EOp::SleepMs(ms) => std::thread::sleep(Duration::from_millis((*ms % 16) as u64)),
                EOp::Key(k) => {
                    let ok = eng.try_consume_key(k);
                    let el = t0.elapsed();
                    let mut g = stats.lock().unwrap();
                    let e = g.entry(Some(*k)).or_insert((0, 0));
                    e.0 += 1;
                    if ok {
                        e.1 += 1;
                    }
                    let (a, b) = upper(c.cfg.max, c.cfg.burst, window, el);
                    if e.1 as f64 > a {
                        fails.lock().unwrap().push((format!("{ID}/Engine::try_consume_key/admitted-exceeds-burst-plus-refill"), format!("key {k}: {} admitted after {el:?}, bound {a:.3}", e.1)));
                    }
                    if e.1 > b {
                        fails.lock().unwrap().push((format!("{ID}/Engine::try_consume_key/admitted-exceeds-window-maximum"), format!("key {k}: {} admitted after {el:?}, bound {b}", e.1)));
                    }
                    // fresh budget: the first min(burst,max) attempts of a key are admitted whatever other keys did
                    if threads == 1 && e.0 <= c.cfg.burst.min(c.cfg.max) as u64 && !ok {
                        fails.lock().unwrap().push((format!("{ID}/Engine::try_consume_key/fresh-key-budget-denied"), format!("key {k}: attempt {} of a key with burst {} max {} denied", e.0, c.cfg.burst, c.cfg.max)));
                    }
                }
                EOp::Global => {
                    let ok = eng.try_consume_global();
                    let el = t0.elapsed();
                    let mut g = stats.lock().unwrap();
                    let e = g.entry(None).or_insert((0, 0));
                    e.0 += 1;
                    if ok {
                        e.1 += 1;
                    }
                    let (a, b) = upper(c.cfg.max, c.cfg.burst, window, el);
                    if e.1 as f64 > a {
                        fails.lock().unwrap().push((format!("{ID}/Engine::try_consume_global/admitted-exceeds-burst-plus-refill"), format!("{} admitted after {el:?}, bound {a:.3}", e.1)));
                    }
                    if e.1 > b {
                        fails.lock().unwrap().push((format!("{ID}/Engine::try_consume_global/admitted-exceeds-window-maximum"), format!("{} admitted after {el:?}, bound {b}", e.1)));
                    }
                }
            }
        }
    };
    if threads == 1 {
        apply(&c.ops);
    } else {
        let chunk = c.ops.len().div_ceil(threads).max(1);
        std::thread::scope(|sc| {
            for ch in c.ops.chunks(chunk) {
                sc.spawn(|| apply(ch));
            }
        });
    }
    let total_el = t0.elapsed();
    let g = stats.lock().unwrap();
    let mut exhausted = false;
    for (k, (att, adm)) in g.iter() {
        if adm < att {
            exhausted = true;
        }
        let floor = (*att).min(c.cfg.burst.min(c.cfg.max) as u64);
        // lower bound holds under any interleaving: the first min(burst,max) attempts find tokens and window room
        if *adm < floor {
            v.fail(format!("{ID}/Engine/fresh-key-budget-denied"), format!("key {k:?}: {adm} admitted of {att} attempts, but its own allowance is {floor}"));
        }
        // hour-long window, run of well under a minute: refill < 1 token ⇒ exact
        if c.cfg.window % 3 == 2 && total_el < Duration::from_secs(60) && *adm != floor {
            v.fail(format!("{ID}/Engine/hour-window-count-not-exact"), format!("key {k:?}: {adm} admitted of {att}, expected exactly {floor}"));
        }
    }
    for (s, m) in fails.lock().unwrap().iter().take(4) {
        v.fail(s.clone(), m.clone());
    }
    v.nt(exhausted);
    v.class(format!("window_{}", ["30ms", "1s", "1h"][(c.cfg.window % 3) as usize]));
    v.class(if threads > 1 { "threads" } else { "sequential" });
    v
}

// ---------------------------------------------------------------------------
// JoinRateLimiter
// ---------------------------------------------------------------------------
#[derive(Debug, Clone, Serialize, Deserialize)]
pub struct JCfg {
    default: bool,
    m64: u32,
    m48: u32,
    m24: u32,
    gmax: u32,
    gburst: u32,
}
#[derive(Debug, Clone, Serialize, Deserialize)]
pub enum Addr {
    /// (/32 idx, /48 idx, /64 idx, host)
    V6(u8, u8, u8, u16),
    /// (/16 idx, /24 idx, host)
    V4(u8, u8, u8),
}
impl Addr {
    fn ip(&self) -> IpAddr {
        match self {
            Addr::V6(a, b, c, h) => IpAddr::V6(Ipv6Addr::new(0x2001, 0x0db0 + *a as u16, 0x100 + *b as u16, 0x20 + *c as u16, 0, 0, (*h >> 8) as u16, *h)),
            Addr::V4(a, b, h) => IpAddr::V4(Ipv4Addr::new(23, 40 + *a, 7 + *b, *h)),
        }
    }
}
#[derive(Debug, Clone, Serialize, Deserialize)]
pub struct JCase {
    cfg: JCfg,
    threads: u8,
    addrs: Vec<Addr>,
}

fn k64(ip: &Ipv6Addr) -> [u8; 8] {
    ip.octets()[..8].try_into().unwrap()
}
fn k48(ip: &Ipv6Addr) -> [u8; 6] {
    ip.octets()[..6].try_into().unwrap()
}

fn run_join(c: &JCase) -> Verdict {
    let mut v = Verdict::new();
    let cfg = if c.cfg.default {
        JoinRateLimiterConfig::default()
    } else {
        JoinRateLimiterConfig { max_joins_per_64_per_hour: c.cfg.m64, max_joins_per_48_per_hour: c.cfg.m48, max_joins_per_24_per_hour: c.cfg.m24, max_global_joins_per_minute: c.cfg.gmax, global_burst_size: c.cfg.gburst }
    };
    let t0 = Instant::now();
    let lim = JoinRateLimiter::new(cfg.clone());
    let threads = c.threads.max(1) as usize;
    let results: Mutex<Vec<(usize, bool)>> = Mutex::new(Vec::new());
    if threads == 1 {
        let mut r = results.lock().unwrap();
        for (i, a) in c.addrs.iter().enumerate() {
            r.push((i, lim.check_join_allowed(&a.ip()).is_ok()));
        }
    } else {
        let chunk = c.addrs.len().div_ceil(threads).max(1);
        std::thread::scope(|sc| {
            for (ci, ch) in c.addrs.chunks(chunk).enumerate() {
                let lim = &lim;
                let results = &results;
                sc.spawn(move || {
                    for (j, a) in ch.iter().enumerate() {
                        let ok = lim.check_join_allowed(&a.ip()).is_ok();
                        results.lock().unwrap().push((ci * chunk + j, ok));
                    }
                });
            }
        });
    }
    let el = t0.elapsed();
    let res = results.lock().unwrap();
    let mut a64: HashMap<[u8; 8], u64> = HashMap::new();
    let mut a48: HashMap<[u8; 6], u64> = HashMap::new();
    let mut a24: HashMap<[u8; 3], u64> = HashMap::new();
    let mut total = 0u64;
    for (i, ok) in res.iter() {
        if !*ok {
            continue;
        }
        total += 1;
        match c.addrs[*i].ip() {
            IpAddr::V6(ip) => {
                *a64.entry(k64(&ip)).or_insert(0) += 1;
                *a48.entry(k48(&ip)).or_insert(0) += 1;
            }
            IpAddr::V4(ip) => {
                *a24.entry(ip.octets()[..3].try_into().unwrap()).or_insert(0) += 1;
            }
        }
    }
    // the run lasts milliseconds; the per-prefix windows are one hour ⇒ the cap is the per-hour figure itself
    if el < Duration::from_secs(120) {
        for (k, n) in &a64 {
            v.check(*n <= cfg.max_joins_per_64_per_hour as u64, &format!("{ID}/JoinRateLimiter/per-64-cap-exceeded"), || format!("{n} joins admitted from /64 {k:02x?}, cap {}", cfg.max_joins_per_64_per_hour));
        }
        for (k, n) in &a48 {
            v.check(*n <= cfg.max_joins_per_48_per_hour as u64, &format!("{ID}/JoinRateLimiter/per-48-cap-exceeded"), || format!("{n} joins admitted from /48 {k:02x?}, cap {}", cfg.max_joins_per_48_per_hour));
        }
        for (k, n) in &a24 {
            v.check(*n <= cfg.max_joins_per_24_per_hour as u64, &format!("{ID}/JoinRateLimiter/per-24-cap-exceeded"), || format!("{n} joins admitted from /24 {k:?}, cap {}", cfg.max_joins_per_24_per_hour));
        }
    }
    let (ga, gb) = upper(cfg.max_global_joins_per_minute, cfg.global_burst_size, Duration::from_secs(60), el);
    v.check(total as f64 <= ga, &format!("{ID}/JoinRateLimiter/global-burst-plus-refill-exceeded"), || format!("{total} joins admitted in {el:?}, bound {ga:.3}"));
    v.check(total <= gb, &format!("{ID}/JoinRateLimiter/global-window-maximum-exceeded"), || format!("{total} joins admitted in {el:?}, bound {gb}"));
    // fresh-prefix lower bound (sequential only): every level untouched so far and the global bucket surely has room
    if threads == 1 {
        let groom = cfg.global_burst_size.min(cfg.max_global_joins_per_minute) as usize;
        let mut s64: HashSet<[u8; 8]> = HashSet::new();
        let mut s48: HashSet<[u8; 6]> = HashSet::new();
        let mut s24: HashSet<[u8; 3]> = HashSet::new();
        for (i, ok) in res.iter() {
            let fresh = match c.addrs[*i].ip() {
                IpAddr::V6(ip) => {
                    let f = !s64.contains(&k64(&ip)) && !s48.contains(&k48(&ip)) && cfg.max_joins_per_64_per_hour >= 1 && cfg.max_joins_per_48_per_hour >= 1;
                    s64.insert(k64(&ip));
                    s48.insert(k48(&ip));
                    f
                }
                IpAddr::V4(ip) => {
                    let k: [u8; 3] = ip.octets()[..3].try_into().unwrap();
                    let f = !s24.contains(&k) && cfg.max_joins_per_24_per_hour >= 1;
                    s24.insert(k);
                    f
                }
            };
            if fresh && *i < groom && !*ok {
                v.fail(format!("{ID}/JoinRateLimiter/fresh-prefix-denied"), format!("attempt #{i} from {} denied although none of its prefixes had been used and the global bucket had room", c.addrs[*i].ip()));
            }
        }
    }
    v.nt(res.iter().any(|(_, ok)| !*ok));
    v.class(if c.cfg.default { "default_cfg" } else { "random_cfg" });
    v.class(if threads > 1 { "threads" } else { "sequential" });
    v.count("admitted", total);
    v
}

// ---------------------------------------------------------------------------
// validation::RateLimiter::check_ip
// ---------------------------------------------------------------------------
#[derive(Debug, Clone, Serialize, Deserialize)]
pub struct VCase {
    cfg: ECfg,
    ops: Vec<(u8, u8)>, // (ip index, sleep ms before)
}

fn run_checkip(c: &VCase) -> Verdict {
    let mut v = Verdict::new();
    let window = c.cfg.window();
    let t0 = Instant::now();
    let rl = RateLimiter::new(RateLimitConfig { window, max_requests: c.cfg.max, burst_size: c.cfg.burst, adaptive: false, cleanup_interval: Duration::from_secs(300) });
    let mut per: HashMap<u8, (u64, u64)> = HashMap::new();
    let mut total = (0u64, 0u64);
    let room = c.cfg.burst.min(c.cfg.max) as u64;
    for (ipi, sl) in &c.ops {
        if *sl % 8 == 7 {
            std::thread::sleep(Duration::from_millis((*sl % 12) as u64));
        }
        let ip = IpAddr::V4(Ipv4Addr::new(10, 1, (*ipi / 8) % 4, *ipi % 8));
        let fresh = !per.contains_key(ipi);
        let ok = rl.check_ip(&ip).is_ok();
        let el = t0.elapsed();
        let e = per.entry(*ipi).or_insert((0, 0));
        e.0 += 1;
        total.0 += 1;
        if ok {
            e.1 += 1;
            total.1 += 1;
        }
        let (a, b) = upper(c.cfg.max, c.cfg.burst, window, el);
        v.check(e.1 as f64 <= a && e.1 <= b, &format!("{ID}/RateLimiter::check_ip/per-ip-bound-exceeded"), || format!("{ip}: {} admitted after {el:?}; bounds {a:.3} / {b}", e.1));
        v.check(total.1 as f64 <= a && total.1 <= b, &format!("{ID}/RateLimiter::check_ip/global-bound-exceeded"), || format!("{} admitted in total after {el:?}; bounds {a:.3} / {b}", total.1));
        if fresh && total.0 <= room && !ok {
            v.fail(format!("{ID}/RateLimiter::check_ip/fresh-ip-denied"), format!("first request of {ip} denied as attempt #{} while the global allowance is {room}", total.0));
        }
        if !v.ok() {
            break;
        }
    }
    v.nt(total.1 < total.0);
    v.class(format!("window_{}", ["30ms", "1s", "1h"][(c.cfg.window % 3) as usize]));
    v
}

// ---------------------------------------------------------------------------
// validation::RateLimiter::check_ip, paced: one source spends its burst, then asks exactly as fast as tokens
// accrue until it is one short of the window maximum, goes idle until the bucket is full again, and asks for a
// whole burst more - all inside one window, with the limiter's housekeeping (cleanup) running in between.
// ---------------------------------------------------------------------------
#[derive(Debug, Clone, Serialize, Deserialize)]
pub struct PacedCase {
    max: u8,
    burst: u8,
    window_ms: u16,
    /// 0 no housekeeping, 1 explicit cleanup() calls, 2 cleanup_interval of 20 ms
    cleanup: u8,
}
fn run_paced(c: &PacedCase) -> Verdict {
    let mut v = Verdict::new();
    let max = (c.max as u32).clamp(3, 12);
    let burst = (c.burst as u32).clamp(1, max - 1);
    let window = Duration::from_millis((c.window_ms as u64).clamp(600, 1500));
    let token = window / max; // time in which one token accrues
    let rl = RateLimiter::new(RateLimitConfig { window, max_requests: max, burst_size: burst, adaptive: false, cleanup_interval: if c.cleanup % 3 == 2 { Duration::from_millis(20) } else { Duration::from_secs(300) } });
    // let the global bucket's window start well before the source's, so that it does not hit its own maximum
    // at the same moment (it shares the configuration)
    std::thread::sleep(window / 2);
    let ip = IpAddr::V4(Ipv4Addr::new(10, 9, 8, 7));
    let first = Instant::now();
    let mut admitted = 0u64;
    let ask = |v: &mut Verdict, admitted: &mut u64, what: &str| {
        let ok = rl.check_ip(&ip).is_ok();
        if ok {
            *admitted += 1;
        }
        // windows are at least `window` long and the source's first one began after `first` was taken
        let el = first.elapsed();
        let windows = (el.as_nanos() / window.as_nanos().max(1)) as u64 + 1;
        let b = max as u64 * windows;
        v.check(*admitted <= b, &format!("{ID}/RateLimiter::check_ip/per-ip-window-maximum-exceeded"), || format!("{} requests of one source admitted {el:?} after its first one (window {window:?}, max {max}, burst {burst}); step: {what}", *admitted));
        let (a, _) = upper(max, burst, window, el);
        v.check(*admitted as f64 <= a, &format!("{ID}/RateLimiter::check_ip/per-ip-bound-exceeded"), || format!("{} admitted after {el:?}; burst+refill bound {a:.3}", *admitted));
    };
    for _ in 0..burst {
        ask(&mut v, &mut admitted, "initial burst");
    }
    for _ in 0..(max - 1).saturating_sub(burst) {
        std::thread::sleep(token + Duration::from_millis(2));
        ask(&mut v, &mut admitted, "paced");
    }
    // idle until the bucket has refilled to its full burst
    std::thread::sleep(token * burst + Duration::from_millis(3));
    if c.cleanup % 3 == 1 {
        rl.cleanup();
    }
    for _ in 0..=burst {
        ask(&mut v, &mut admitted, "after the idle period");
    }
    if c.cleanup % 3 == 1 {
        rl.cleanup();
        ask(&mut v, &mut admitted, "after a second cleanup");
    }
    let in_one_window = first.elapsed() < window;
    v.nt(in_one_window);
    v.class(["no_housekeeping", "explicit_cleanup", "short_cleanup_interval"][(c.cleanup % 3) as usize]);
    if !in_one_window {
        v.class("ran_past_the_window(machine slow, bound vacuous)");
    }
    v
}

fn ecfg() -> impl Strategy<Value = ECfg> {
    (1u32..=20, 1u32..=20, 0u8..3).prop_map(|(max, burst, window)| ECfg { max, burst, window })
}

pub fn run(run: &Run) {
    run.assume("upper bounds use an elapsed time measured from before the limiter was built to after the call returned (an over-approximation of what the limiter saw), so scheduling noise can only loosen them");
    run.assume("thread variants sample OS interleavings; they do not enumerate them");
    run.set_rule("engine", "config (max 1..20, burst 1..20, window 30ms|1s|1h) × sequence of keyed/global requests and short sleeps (len ≤200, thorough ≤2000), sequential or 2..8 threads; non-trivial = at least one request denied (a budget was exhausted)");
    run.set_rule("join", "default or random caps × sequence of IPv6/IPv4 sources drawn from a pool of nested prefixes (/32⊃/48⊃/64, /16⊃/24); non-trivial = at least one join denied");
    run.set_rule("check_ip", "config × sequence of (ip, optional sleep); non-trivial = at least one request denied");
    let len = run.tier.pick(200usize, 2000);
    let sh = shards_for(run.tier);
    let eop = prop_oneof![8 => (0u8..6).prop_map(EOp::Key), 3 => Just(EOp::Global), 1 => (1u8..16).prop_map(EOp::SleepMs)];
    let ecase = (ecfg(), prop_oneof![2 => Just(1u8), 1 => 2u8..=8], prop::collection::vec(eop, 1..len)).prop_map(|(cfg, threads, ops)| ECase { cfg, threads, ops });
    run.prop("engine", run.tier.pick(400, 20000), sh, ecase, run_engine);

    let jcfg = prop_oneof![
        1 => Just(JCfg { default: true, m64: 1, m48: 5, m24: 3, gmax: 100, gburst: 10 }),
        2 => (1u32..4, 1u32..8, 1u32..6, 1u32..400, 1u32..300).prop_map(|(m64, m48, m24, gmax, gburst)| JCfg { default: false, m64, m48, m24, gmax, gburst }),
    ];
    let addr = prop_oneof![
        3 => (0u8..2, 0u8..3, 0u8..9, any::<u16>()).prop_map(|(a, b, c, h)| Addr::V6(a, b, c, h)),
        2 => (0u8..2, 0u8..4, any::<u8>()).prop_map(|(a, b, h)| Addr::V4(a, b, h)),
    ];
    let jcase = (jcfg, prop_oneof![2 => Just(1u8), 1 => 2u8..=8], prop::collection::vec(addr, 1..len)).prop_map(|(cfg, threads, addrs)| JCase { cfg, threads, addrs });
    run.prop("join", run.tier.pick(1500, 80000), sh, jcase, run_join);

    let vcase = (ecfg(), prop::collection::vec((0u8..32, any::<u8>()), 1..len)).prop_map(|(cfg, ops)| VCase { cfg, ops });
    run.prop("check_ip", run.tier.pick(300, 12000), sh, vcase, run_checkip);
    run.set_rule("check_ip_paced", "one source against validation::RateLimiter (max 3..12, burst < max, window 0.6..1.5 s): burst, then one request per token interval up to max-1, an idle period that refills the bucket, then burst+1 more, with no housekeeping / explicit cleanup() / a 20 ms cleanup interval; admitted requests of the source are bounded by max per window counted from before its first request; non-trivial = the whole sequence ran inside one window");
    let pcase = (3u8..=12, 1u8..=11, 600u16..=1500, 0u8..3).prop_map(|(max, burst, window_ms, cleanup)| PacedCase { max, burst, window_ms, cleanup });
    run.prop("check_ip_paced", run.tier.pick(32, 400), sh, pcase, run_paced);
}

pub fn replay(run: &Run, sub: &str, case: &Value) -> Option<bool> {
    match sub {
        "engine" => Some(run.eval_case("replay/engine", &from_value::<ECase>(case)?, &run_engine)),
        "join" => Some(run.eval_case("replay/join", &from_value::<JCase>(case)?, &run_join)),
        "check_ip" => Some(run.eval_case("replay/check_ip", &from_value::<VCase>(case)?, &run_checkip)),
        "check_ip_paced" => Some(run.eval_case("replay/check_ip_paced", &from_value::<PacedCase>(case)?, &run_paced)),
        _ => None,
    }
}
