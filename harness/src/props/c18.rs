//! C18 — stored keys open only with the current password; tampering is detected.
//! Oracle: reference model {current password, id → seed} over store/retrieve/change-password/
//! clear-cache/reopen histories; corruption sweep (Err or the original seed, never other bytes);
//! crash images of an interrupted update open as exactly the old or exactly the new contents.
use crate::engine::*;
use proptest::prelude::*;
use saorsa_core::encrypted_key_storage::{EncryptedKeyStorageManager, SecurityLevel};
use saorsa_core::key_derivation::MasterSeed;
use saorsa_core::secure_memory::SecureString;
use serde::{Deserialize, Serialize};
use serde_json::Value;
use std::cell::RefCell;
use std::collections::HashMap;
use std::path::{Path, PathBuf};
use std::rc::Rc;

const ID: &str = "C18";
const PASSWORDS: [&str; 5] = ["Tr0ub4dor&3xyQ", "Zebra!Quilt7mxW", "n0t-The-s4me-Key!", "Vq9#kLm2@wXzR", "Hx7$uUe1%bNcT"];
const SEED_IDS: [&str; 3] = ["main", "backup", "device-2"];

fn pw(i: u8) -> SecureString {
    SecureString::from_plain_str(PASSWORDS[i as usize % PASSWORDS.len()]).expect("secure string")
}
fn seed_bytes(s: u8) -> Vec<u8> {
    blake3::hash(&[s, 0x18]).as_bytes().to_vec()
}

#[derive(Debug, Clone, Serialize, Deserialize)]
pub enum PwPick {
    Current,
    Previous,
    Other(u8),
}
#[derive(Debug, Clone, Serialize, Deserialize)]
pub enum Op {
    Store(u8, u8, PwPick),
    Retrieve(u8, PwPick),
    ChangePassword(u8, PwPick),
    ClearCache,
    Reopen,
}
#[derive(Debug, Clone, Serialize, Deserialize)]
pub struct Case {
    ops: Vec<Op>,
}

struct Model {
    current: u8,
    previous: Option<u8>,
    seeds: HashMap<u8, Vec<u8>>,
}
impl Model {
    /// resolve a pick to (password index, is it the current password?)
    fn resolve(&self, p: &PwPick) -> (u8, bool) {
        let i = match p {
            PwPick::Current => self.current,
            PwPick::Previous => self.previous.unwrap_or((self.current + 1) % PASSWORDS.len() as u8),
            PwPick::Other(o) => *o % PASSWORDS.len() as u8,
        };
        (i, i == self.current)
    }
}

fn rt() -> tokio::runtime::Runtime {
    tokio::runtime::Builder::new_current_thread().enable_all().build().unwrap()
}

fn run_case(c: &Case) -> Verdict {
    rt().block_on(async {
        let mut v = Verdict::new();
        let dir = tempfile::tempdir().unwrap();
        let path = dir.path().join("keys.enc");
        let mut mgr = EncryptedKeyStorageManager::new(&path, SecurityLevel::Fast).expect("manager");
        let mut m = Model { current: 0, previous: None, seeds: HashMap::new() };
        if let Err(e) = mgr.initialize(&pw(0)).await {
            v.fail(format!("{ID}/initialize/valid-password-refused"), format!("{e}"));
            return v;
        }
        let mut wrong_after_success = false;
        let mut had_success = false;
        let mut since_reopen_success = false;
        for (step, op) in c.ops.iter().enumerate() {
            match op {
                Op::Store(id, s, p) => {
                    let (pi, is_cur) = m.resolve(p);
                    let seed = MasterSeed::from_entropy(&seed_bytes(*s)).expect("seed");
                    let res = mgr.store_master_seed(SEED_IDS[*id as usize % 3], &seed, &pw(pi)).await;
                    match (res.is_ok(), is_cur) {
                        (true, true) => {
                            m.seeds.insert(*id % 3, seed_bytes(*s));
                            had_success = true;
                            since_reopen_success = true;
                        }
                        (false, true) => v.fail(format!("{ID}/store_master_seed/current-password-refused"), format!("step {step}: {}", res.err().map(|e| e.to_string()).unwrap_or_default())),
                        (true, false) => v.fail(format!("{ID}/store_master_seed/accepted-with-a-password-that-is-not-current"), format!("step {step}: password #{pi}, current #{}", m.current)),
                        (false, false) => {}
                    }
                }
                Op::Retrieve(id, p) => {
                    let (pi, is_cur) = m.resolve(p);
                    let res = mgr.retrieve_master_seed(SEED_IDS[*id as usize % 3], &pw(pi)).await;
                    let want = m.seeds.get(&(*id % 3));
                    if is_cur {
                        match (&res, want) {
                            (Ok(s), Some(w)) => {
                                if s.seed_material() != &w[..] {
                                    v.fail(format!("{ID}/retrieve_master_seed/returned-different-key-material"), format!("step {step}: seed '{}'", SEED_IDS[*id as usize % 3]));
                                }
                                had_success = true;
                                since_reopen_success = true;
                            }
                            (Ok(_), None) => v.fail(format!("{ID}/retrieve_master_seed/returned-a-seed-that-was-never-stored"), format!("step {step}")),
                            (Err(e), Some(_)) => v.fail(format!("{ID}/retrieve_master_seed/current-password-refused"), format!("step {step}: {e}")),
                            (Err(_), None) => {}
                        }
                    } else {
                        if had_success {
                            wrong_after_success = true;
                        }
                        if res.is_ok() {
                            let when = if Some(pi) == m.previous { "previous-password-after-change" } else if since_reopen_success { "wrong-password-in-same-process" } else { "wrong-password-after-reopen" };
                            v.fail(format!("{ID}/retrieve_master_seed/opened-with-a-password-that-is-not-current/{when}"), format!("step {step}: password #{pi} (current #{}) returned seed '{}'", m.current, SEED_IDS[*id as usize % 3]));
                        }
                    }
                }
                Op::ChangePassword(to, p) => {
                    let (pi, is_cur) = m.resolve(p);
                    let to = *to % PASSWORDS.len() as u8;
                    let res = mgr.change_password(&pw(pi), &pw(to)).await;
                    match (res.is_ok(), is_cur) {
                        (true, true) => {
                            if to != m.current {
                                m.previous = Some(m.current);
                            }
                            m.current = to;
                        }
                        (false, true) => v.fail(format!("{ID}/change_password/current-password-refused"), format!("step {step}: {}", res.err().map(|e| e.to_string()).unwrap_or_default())),
                        (true, false) => v.fail(format!("{ID}/change_password/accepted-with-a-password-that-is-not-current"), format!("step {step}")),
                        (false, false) => {}
                    }
                }
                Op::ClearCache => {
                    let _ = mgr.clear_cache();
                    since_reopen_success = false;
                }
                Op::Reopen => {
                    mgr = EncryptedKeyStorageManager::new(&path, SecurityLevel::Fast).expect("manager");
                    since_reopen_success = false;
                }
            }
            if !v.ok() {
                break;
            }
        }
        // final: every stored seed opens with the current password on a fresh manager, and with no other
        if v.ok() {
            let fresh = EncryptedKeyStorageManager::new(&path, SecurityLevel::Fast).expect("manager");
            for (id, w) in &m.seeds {
                match fresh.retrieve_master_seed(SEED_IDS[*id as usize], &pw(m.current)).await {
                    Ok(s) if s.seed_material() == &w[..] => {}
                    Ok(_) => v.fail(format!("{ID}/retrieve_master_seed/returned-different-key-material"), "final reopen".to_string()),
                    Err(e) => v.fail(format!("{ID}/retrieve_master_seed/current-password-refused"), format!("final reopen: {e}")),
                }
            }
        }
        v.nt(wrong_after_success);
        if c.ops.iter().any(|o| matches!(o, Op::ChangePassword(..))) {
            v.class("with_password_change");
        }
        if c.ops.iter().any(|o| matches!(o, Op::Reopen)) {
            v.class("with_reopen");
        }
        v
    })
}

// ---------------- corruption sweep ----------------
#[derive(Debug, Clone, Serialize, Deserialize)]
pub struct CorruptCase {
    offset: u32,
    mask: u8,
    variant: u8,
}
/// Golden file with two seeds, built once per process.
fn golden(variant: u8) -> &'static (Vec<u8>, PathBuf) {
    use std::sync::OnceLock;
    static G: [OnceLock<(Vec<u8>, PathBuf)>; 2] = [OnceLock::new(), OnceLock::new()];
    G[variant as usize % 2].get_or_init(|| {
        let dir = tempfile::tempdir().unwrap().keep();
        let path = dir.join("keys.enc");
        rt().block_on(async {
            let mgr = EncryptedKeyStorageManager::new(&path, SecurityLevel::Fast).expect("manager");
            mgr.initialize(&pw(0)).await.expect("init");
            mgr.store_master_seed("main", &MasterSeed::from_entropy(&seed_bytes(1)).unwrap(), &pw(0)).await.expect("store");
            if variant % 2 == 1 {
                mgr.store_master_seed("backup", &MasterSeed::from_entropy(&seed_bytes(2)).unwrap(), &pw(0)).await.expect("store");
            }
        });
        (std::fs::read(&path).expect("read"), dir)
    })
}
fn run_corrupt(c: &CorruptCase) -> Verdict {
    let mut v = Verdict::new();
    let (bytes, _) = golden(c.variant);
    let off = (c.offset as usize) % bytes.len();
    let mask = if c.mask == 0 { 1 } else { c.mask };
    let mut b = bytes.clone();
    b[off] ^= mask;
    let dir = tempfile::tempdir().unwrap();
    let path = dir.path().join("keys.enc");
    std::fs::write(&path, &b).unwrap();
    rt().block_on(async {
        let mgr = EncryptedKeyStorageManager::new(&path, SecurityLevel::Fast).expect("manager");
        match mgr.retrieve_master_seed("main", &pw(0)).await {
            Err(_) => v.class("rejected"),
            Ok(s) => {
                if s.seed_material() != &seed_bytes(1)[..] {
                    v.fail(format!("{ID}/retrieve_master_seed/corrupted-file-yields-different-key-material"), format!("offset {off} of {} mask {mask:#04x}", bytes.len()));
                }
                v.class("still_original");
            }
        }
    });
    v.nt(true);
    v
}

// ---------------- crash images ----------------
#[derive(Debug, Clone, Serialize, Deserialize)]
pub enum Interrupted {
    Store(u8, u8),
    ChangePassword(u8),
}
#[derive(Debug, Clone, Serialize, Deserialize)]
pub struct CrashCase {
    pre_seeds: Vec<(u8, u8)>,
    op: Interrupted,
}
fn copy_dir(from: &Path, to: &Path) {
    std::fs::create_dir_all(to).unwrap();
    if let Ok(rd) = std::fs::read_dir(from) {
        for e in rd.flatten() {
            if e.path().is_file() {
                let _ = std::fs::copy(e.path(), to.join(e.file_name()));
            }
        }
    }
}
fn run_crash(c: &CrashCase) -> Verdict {
    rt().block_on(async {
        let mut v = Verdict::new();
        let dir = tempfile::tempdir().unwrap();
        let path = dir.path().join("keys.enc");
        let mgr = EncryptedKeyStorageManager::new(&path, SecurityLevel::Fast).expect("manager");
        mgr.initialize(&pw(0)).await.expect("init");
        let mut old: HashMap<u8, Vec<u8>> = HashMap::new();
        for (id, s) in &c.pre_seeds {
            mgr.store_master_seed(SEED_IDS[*id as usize % 3], &MasterSeed::from_entropy(&seed_bytes(*s)).unwrap(), &pw(0)).await.expect("store");
            old.insert(*id % 3, seed_bytes(*s));
        }
        // record an image of the directory at every crash point of the interrupted operation
        let images_root = tempfile::tempdir().unwrap();
        let images: Rc<RefCell<Vec<(String, PathBuf)>>> = Rc::new(RefCell::new(Vec::new()));
        {
            let images = images.clone();
            let src = dir.path().to_path_buf();
            let root = images_root.path().to_path_buf();
            saorsa_core::verif_hooks::set_crash_hook(Some(Box::new(move |tag: &'static str| {
                let n = images.borrow().len();
                let dst = root.join(format!("img{n}"));
                copy_dir(&src, &dst);
                images.borrow_mut().push((tag.to_string(), dst.clone()));
                // after the temporary file was written: also every truncation of it
                if tag == "keystore:tmp-written" {
                    if let Ok(tmp) = std::fs::read(dst.join("keys.tmp")) {
                        let step = (tmp.len() / 12).max(1);
                        let mut len = 0;
                        while len < tmp.len() {
                            let n2 = images.borrow().len();
                            let d2 = root.join(format!("img{n2}"));
                            copy_dir(&src, &d2);
                            let _ = std::fs::write(d2.join("keys.tmp"), &tmp[..len]);
                            images.borrow_mut().push((format!("{tag}:truncated@{len}"), d2));
                            len += step;
                        }
                    }
                }
            })));
        }
        let (new, new_pw): (HashMap<u8, Vec<u8>>, u8) = match &c.op {
            Interrupted::Store(id, s) => {
                let r = mgr.store_master_seed(SEED_IDS[*id as usize % 3], &MasterSeed::from_entropy(&seed_bytes(*s)).unwrap(), &pw(0)).await;
                let mut n = old.clone();
                n.insert(*id % 3, seed_bytes(*s));
                if r.is_err() {
                    v.fail(format!("{ID}/store_master_seed/current-password-refused"), "during crash-image recording".to_string());
                }
                (n, 0)
            }
            Interrupted::ChangePassword(to) => {
                let to = 1 + (*to % (PASSWORDS.len() as u8 - 1));
                let r = mgr.change_password(&pw(0), &pw(to)).await;
                if r.is_err() {
                    v.fail(format!("{ID}/change_password/current-password-refused"), "during crash-image recording".to_string());
                }
                (old.clone(), to)
            }
        };
        saorsa_core::verif_hooks::set_crash_hook(None);
        let imgs = images.borrow().clone();
        if imgs.is_empty() {
            v.fail(format!("{ID}/hooks/no-crash-point-reached"), "encrypt_and_store reported no crash point (hooks missing?)".to_string());
        }
        let read_all = |p: PathBuf, pwi: u8| async move {
            let mgr = EncryptedKeyStorageManager::new(p.join("keys.enc"), SecurityLevel::Fast).ok()?;
            let mut out: HashMap<u8, Vec<u8>> = HashMap::new();
            let mut opened = false;
            for id in 0..3u8 {
                match mgr.retrieve_master_seed(SEED_IDS[id as usize], &pw(pwi)).await {
                    Ok(s) => {
                        opened = true;
                        out.insert(id, s.seed_material().to_vec());
                    }
                    Err(e) => {
                        // "seed not found" proves the password opened the file
                        if e.to_string().contains("seed:") {
                            opened = true;
                        }
                    }
                }
            }
            if opened {
                Some(out)
            } else {
                None
            }
        };
        for (tag, p) in &imgs {
            let with_old = read_all(p.clone(), 0).await;
            let with_new = if new_pw != 0 { read_all(p.clone(), new_pw).await } else { None };
            let ok_old = with_old.as_ref().map(|m| *m == old).unwrap_or(false);
            let ok_new = if new_pw != 0 { with_new.as_ref().map(|m| *m == new).unwrap_or(false) } else { with_old.as_ref().map(|m| *m == new).unwrap_or(false) };
            if !(ok_old || ok_new) {
                v.fail(format!("{ID}/encrypt_and_store/crash-image-is-neither-old-nor-new/{}", tag.split(':').take(2).collect::<Vec<_>>().join(":")), format!("image '{tag}': with old password → {:?} entries, with new → {:?}", with_old.as_ref().map(|m| m.len()), with_new.as_ref().map(|m| m.len())));
                break;
            }
        }
        v.count("images", imgs.len() as u64);
        v.nt(imgs.len() >= 3);
        v.class(match c.op {
            Interrupted::Store(..) => "interrupted_store",
            Interrupted::ChangePassword(..) => "interrupted_password_change",
        });
        v
    })
}

fn pw_pick() -> impl Strategy<Value = PwPick> {
    prop_oneof![6 => Just(PwPick::Current), 2 => Just(PwPick::Previous), 3 => (0u8..5).prop_map(PwPick::Other)]
}

pub fn run(run: &Run) {
    run.assume("SecurityLevel::Fast (Argon2id 4 MiB, 1 pass) keeps a case at tens of milliseconds; the cipher and file format are the same at every level");
    run.assume("crash points are the instrumented steps of encrypt_and_store (temporary file opened / written / flushed / renamed) plus truncations of the temporary file; power loss after a completed rename is outside the property");
    // the fixed passwords must be valid ones
    {
        let dir = tempfile::tempdir().unwrap();
        let mgr = EncryptedKeyStorageManager::new(dir.path().join("k"), SecurityLevel::Fast).expect("manager");
        for (i, _) in PASSWORDS.iter().enumerate() {
            let ok = mgr.validate_password(&pw(i as u8)).map(|x| x.valid).unwrap_or(false);
            if !ok {
                run.inconclusive.lock().unwrap().push(format!("fixed password #{i} is no longer accepted by validate_password"));
                return;
            }
        }
    }
    run.set_rule("history", "history (len 1..8, thorough 1..30) of store / retrieve (current, previous, other password) / change-password / clear-cache / reopen over 3 seed ids and 5 valid passwords vs the reference model; non-trivial = a retrieve with a non-current password after a successful store or retrieve");
    run.set_rule("corruption", "single-byte corruption (offset × mask) of a golden store file (two variants), fresh manager, right password: must fail or return the original seed; every case non-trivial; distinct by (variant, offset, mask)");
    run.set_rule("crash", "store or change-password interrupted at every instrumented step (+ truncations of the temporary file): each image must open as exactly the old or exactly the new contents; non-trivial = ≥3 images");
    let sh = shards_for(run.tier);
    let len = run.tier.pick(8usize, 30);
    let op = prop_oneof![
        4 => (0u8..3, any::<u8>(), pw_pick()).prop_map(|(i, s, p)| Op::Store(i, s, p)),
        8 => (0u8..3, pw_pick()).prop_map(|(i, p)| Op::Retrieve(i, p)),
        2 => (0u8..5, pw_pick()).prop_map(|(t, p)| Op::ChangePassword(t, p)),
        1 => Just(Op::ClearCache),
        2 => Just(Op::Reopen),
    ];
    let case = prop::collection::vec(op, 1..=len).prop_map(|ops| Case { ops });
    run.prop("history", run.tier.pick(1440, 9000), sh, case, run_case);

    // corruption sweep: enumerate offsets (quick: every 4th) × masks
    let masks = [0x01u8, 0x80, 0xff];
    let mut sweep = Vec::new();
    for variant in 0..run.tier.pick(1u8, 2) {
        let n = golden(variant).0.len();
        let stride = run.tier.pick(4, 1);
        for off in (0..n).step_by(stride) {
            for m in masks {
                sweep.push(CorruptCase { offset: off as u32, mask: m, variant });
            }
        }
    }
    let chunks: Vec<&[CorruptCase]> = sweep.chunks(sweep.len().div_ceil(sh as usize).max(1)).collect();
    std::thread::scope(|sc| {
        for ch in chunks {
            sc.spawn(move || {
                for c in ch {
                    run.eval_case("corruption", c, &run_corrupt);
                }
            });
        }
    });
    if run.tier == Tier::Thorough {
        run.set_exhaustive("corruption");
    }

    let crash = (prop::collection::vec((0u8..3, any::<u8>()), 0..3), prop_oneof![(0u8..3, any::<u8>()).prop_map(|(i, s)| Interrupted::Store(i, s)), (0u8..4).prop_map(Interrupted::ChangePassword)]).prop_map(|(pre_seeds, op)| CrashCase { pre_seeds, op });
    run.prop("crash", run.tier.pick(96, 600), sh, crash, run_crash);
}

pub fn replay(run: &Run, sub: &str, case: &Value) -> Option<bool> {
    match sub {
        "history" => Some(run.eval_case("replay/history", &from_value::<Case>(case)?, &run_case)),
        "corruption" => Some(run.eval_case("replay/corruption", &from_value::<CorruptCase>(case)?, &run_corrupt)),
        "crash" => Some(run.eval_case("replay/crash", &from_value::<CrashCase>(case)?, &run_crash)),
        _ => None,
    }
}
