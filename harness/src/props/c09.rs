//! C09 — a peer record verifies only if its owner signed exactly it, cached or not.
//! Oracle: by-construction genuineness (a record is genuine iff no field changed after signing,
//! it was signed with the embedded key's secret half and its user id is derived from that key);
//! differential cached-vs-direct verdict over histories; constructor bounds.
use crate::engine::*;
use proptest::prelude::*;
use saorsa_core::peer_record::{EndpointId, NatType, PeerDHTRecord, PeerEndpoint, SignatureCache, UserId, MAX_ENDPOINTS_PER_PEER, MAX_TTL_SECONDS};
use saorsa_core::quantum_crypto::ant_quic_integration::{generate_ml_dsa_keypair, MlDsaPublicKey, MlDsaSecretKey};
use saorsa_core::NetworkAddress;
use serde::{Deserialize, Serialize};
use serde_json::Value;
use std::sync::OnceLock;

const ID: &str = "C09";

fn keys() -> &'static Vec<(MlDsaPublicKey, MlDsaSecretKey)> {
    static K: OnceLock<Vec<(MlDsaPublicKey, MlDsaSecretKey)>> = OnceLock::new();
    K.get_or_init(|| (0..4).map(|_| generate_ml_dsa_keypair().expect("keygen")).collect())
}

#[derive(Debug, Clone, Serialize, Deserialize, PartialEq)]
pub enum Uid {
    Derived,
    OfKey(u8),
    Random(u8),
}
#[derive(Debug, Clone, Serialize, Deserialize, PartialEq)]
pub enum Mutation {
    None,
    Name,
    NameToNone,
    Seq,
    Ttl,
    Timestamp,
    EndpointPort,
    EndpointAdded,
    EndpointDevice,
    /// the same endpoints in another order: 0 swap first and last, 1 rotate, 2 reverse
    EndpointsReordered(u8),
    EndpointRemoved,
    EndpointDuplicated,
    /// another sub-field of an endpoint: 0 NAT type, 1 coordinators, 2 last_updated, 3 endpoint id
    EndpointField(u8),
    Version,
    UserId,
    PublicKey(u8),
    SigByte(u16, u8),
    /// signed with the secret half of another key than the embedded one
    SignedByOther(u8),
    /// never signed (placeholder signature)
    Unsigned,
}
#[derive(Debug, Clone, Serialize, Deserialize)]
pub struct RecSpec {
    key: u8,
    uid: Uid,
    seq: u8,
    name: u8, // 0 = None
    endpoints: u8,
    ttl: u32,
    ts_back: u16,
    mutation: Mutation,
}
#[derive(Debug, Clone, Serialize, Deserialize)]
pub struct Case {
    capacity: u8,
    presentations: Vec<RecSpec>,
}

fn endpoint(i: u8, port: u16, device: &str) -> PeerEndpoint {
    let mut e = PeerEndpoint::new(
        EndpointId::from_uuid(uuid::Uuid::from_u128(0x1000 + i as u128)),
        format!("10.{}.0.1:{}", i, port).parse::<NetworkAddress>().expect("addr"),
        NatType::FullCone,
        vec!["coord-a".to_string()],
        Some(device.to_string()),
    );
    e.last_updated = 1_700_000_000; // fixed, so equal specs give equal records
    e
}

fn uid_of(spec: &RecSpec) -> UserId {
    let k = keys();
    match &spec.uid {
        Uid::Derived => UserId::from_public_key(&k[spec.key as usize % 4].0),
        Uid::OfKey(o) => UserId::from_public_key(&k[*o as usize % 4].0),
        Uid::Random(r) => UserId::from_bytes([*r; 32]),
    }
}

/// Build the record; returns (record, genuine?). Signed base records are memoised per case so that a record
/// presented again (altered or not) carries the *same* signature bytes - ML-DSA signing is randomised, a
/// re-signed copy would never meet the first one in the cache.
fn build(spec: &RecSpec, memo: &mut std::collections::HashMap<String, PeerDHTRecord>) -> (PeerDHTRecord, bool) {
    let k = keys();
    let ki = spec.key as usize % 4;
    let n_ep = spec.endpoints.clamp(1, 5);
    let eps: Vec<PeerEndpoint> = (0..n_ep).map(|i| endpoint(i, 8080, "dev")).collect();
    let name = if spec.name == 0 { None } else { Some(format!("user-{}", spec.name)) };
    let ttl = spec.ttl.clamp(1, MAX_TTL_SECONDS);
    let mut r = PeerDHTRecord::new(uid_of(spec), k[ki].0.clone(), spec.seq as u64, name, eps, ttl).expect("valid inputs");
    r.timestamp = 1_760_000_000 - spec.ts_back as u64;
    let uid_derived = r.user_id == UserId::from_public_key(&k[ki].0);
    let mut genuine = uid_derived;
    match &spec.mutation {
        Mutation::Unsigned => {
            genuine = false;
        }
        Mutation::SignedByOther(o) => {
            let oi = *o as usize % 4;
            r.sign(&k[oi].1).expect("sign");
            if oi != ki {
                genuine = false;
            }
        }
        _ => {
            let mut base = spec.clone();
            base.mutation = Mutation::None;
            let memo_key = serde_json::to_string(&base).unwrap_or_default();
            match memo.get(&memo_key) {
                Some(signed) => r = signed.clone(),
                None => {
                    r.sign(&k[ki].1).expect("sign");
                    memo.insert(memo_key, r.clone());
                }
            }
        }
    }
    match &spec.mutation {
        Mutation::None | Mutation::Unsigned | Mutation::SignedByOther(_) => {}
        Mutation::Name => {
            r.name = Some(match &r.name {
                Some(n) => format!("{n}x"),
                None => "x".into(),
            });
            genuine = false;
        }
        Mutation::NameToNone => {
            if r.name.is_some() {
                genuine = false;
            }
            r.name = None;
        }
        Mutation::Seq => {
            r.sequence_number += 1;
            genuine = false;
        }
        Mutation::Ttl => {
            r.ttl = if r.ttl == 1 { 2 } else { r.ttl - 1 };
            genuine = false;
        }
        Mutation::Timestamp => {
            r.timestamp += 1;
            genuine = false;
        }
        Mutation::EndpointPort => {
            r.endpoints[0] = endpoint(0, 8081, "dev");
            genuine = false;
        }
        Mutation::EndpointAdded => {
            r.endpoints.push(endpoint(9, 9999, "evil"));
            genuine = false;
        }
        Mutation::EndpointDevice => {
            r.endpoints[0] = endpoint(0, 8080, "dew");
            genuine = false;
        }
        Mutation::EndpointsReordered(how) => {
            let before = r.endpoints.clone();
            let n = r.endpoints.len();
            match how % 3 {
                0 => r.endpoints.swap(0, n - 1),
                1 => r.endpoints.rotate_left(1),
                _ => r.endpoints.reverse(),
            }
            if postcard::to_stdvec(&before).ok() != postcard::to_stdvec(&r.endpoints).ok() {
                genuine = false;
            }
        }
        Mutation::EndpointRemoved => {
            if r.endpoints.len() >= 2 {
                r.endpoints.pop();
                genuine = false;
            }
        }
        Mutation::EndpointDuplicated => {
            let e = r.endpoints[0].clone();
            r.endpoints.push(e);
            genuine = false;
        }
        Mutation::EndpointField(f) => {
            let last = r.endpoints.len() - 1;
            let e = &mut r.endpoints[last];
            match f % 4 {
                0 => e.nat_type = NatType::Symmetric,
                1 => e.coordinator_nodes.push("coord-b".to_string()),
                2 => e.last_updated += 1,
                _ => e.endpoint_id = EndpointId::from_uuid(uuid::Uuid::from_u128(0x9999)),
            }
            genuine = false;
        }
        Mutation::Version => {
            r.version = r.version.wrapping_add(1);
            genuine = false;
        }
        Mutation::UserId => {
            r.user_id.hash[7] ^= 0x10;
            genuine = false;
        }
        Mutation::PublicKey(o) => {
            let oi = *o as usize % 4;
            if oi != ki {
                r.public_key = k[oi].0.clone();
                genuine = false;
            }
        }
        Mutation::SigByte(pos, mask) => {
            let m = if *mask == 0 { 1 } else { *mask };
            let p = idx(*pos, r.signature.0.len());
            r.signature.0[p] ^= m;
            genuine = false;
        }
    }
    (r, genuine)
}

fn run_case(c: &Case) -> Verdict {
    let mut v = Verdict::new();
    let cap = if c.capacity == 0 { 100 } else { c.capacity as usize };
    let mut cache = SignatureCache::new(cap);
    let mut seen_keys: Vec<(Vec<u8>, u64, u64, bool)> = Vec::new(); // (uid, seq, ts, genuine)
    let mut forged_after_genuine = false;
    let mut distinct_cache_keys = std::collections::HashSet::new();
    let mut memo = std::collections::HashMap::new();
    for (i, spec) in c.presentations.iter().enumerate() {
        let (rec, genuine) = build(spec, &mut memo);
        let direct = rec.verify_signature().is_ok();
        if direct && !genuine {
            let why = if spec.uid != Uid::Derived && matches!(spec.mutation, Mutation::None | Mutation::SignedByOther(_)) { "user-id-not-bound-to-embedded-key" } else { "altered-or-foreign-record-accepted" };
            v.fail(format!("{ID}/verify_signature/{why}"), format!("presentation {i}: {spec:?}"));
        }
        if !direct && genuine {
            v.fail(format!("{ID}/verify_signature/genuine-record-rejected"), format!("presentation {i}: {spec:?}"));
        }
        let cached = cache.verify_cached(&rec).is_ok();
        if cached != direct {
            let kind = if cached { "cache-accepts-what-direct-verification-rejects" } else { "cache-rejects-what-direct-verification-accepts" };
            v.fail(format!("{ID}/verify_cached/{kind}"), format!("presentation {i}: {spec:?}; direct={direct} cached={cached}"));
        }
        let ck = (rec.user_id.hash.to_vec(), rec.sequence_number, rec.timestamp);
        if seen_keys.iter().any(|(u, s, t, g)| *u == ck.0 && *s == ck.1 && *t == ck.2 && *g != genuine) {
            forged_after_genuine = true;
        }
        distinct_cache_keys.insert(ck.clone());
        seen_keys.push((ck.0, ck.1, ck.2, genuine));
        if !v.ok() {
            break;
        }
    }
    let evicted = distinct_cache_keys.len() > cap;
    v.nt(forged_after_genuine || evicted);
    if forged_after_genuine {
        v.class("genuine_and_forged_share_id_seq_timestamp");
    }
    if evicted {
        v.class("eviction");
    }
    v
}

// ---- constructor bounds ----------------------------------------------------
#[derive(Debug, Clone, Serialize, Deserialize)]
pub struct BoundCase {
    name_len: u16, // 0 = None
    endpoints: u8,
    ttl: u32,
}
fn run_bounds(c: &BoundCase) -> Verdict {
    let mut v = Verdict::new();
    let k = keys();
    let name = if c.name_len == 0 { None } else { Some("n".repeat(c.name_len as usize)) };
    let eps: Vec<PeerEndpoint> = (0..c.endpoints).map(|i| endpoint(i, 8000 + i as u16, "d")).collect();
    let res = PeerDHTRecord::new(UserId::from_public_key(&k[0].0), k[0].0.clone(), 1, name, eps, c.ttl);
    let name_ok = c.name_len <= 255;
    let ep_ok = c.endpoints >= 1 && (c.endpoints as usize) <= MAX_ENDPOINTS_PER_PEER;
    let ttl_ok = c.ttl >= 1 && c.ttl <= MAX_TTL_SECONDS;
    let want = name_ok && ep_ok && ttl_ok;
    if res.is_ok() != want {
        let which = if !name_ok { "name-length" } else if !ep_ok { "endpoint-count" } else if !ttl_ok { "lifetime" } else { "valid-inputs-refused" };
        v.fail(format!("{ID}/PeerDHTRecord::new/bounds/{which}"), format!("name_len={} endpoints={} ttl={} → {}", c.name_len, c.endpoints, c.ttl, if res.is_ok() { "accepted" } else { "refused" }));
    }
    let boundary = [255u16, 256, 1].contains(&c.name_len) || [0u8, 1, 16, 17].contains(&c.endpoints) || [0u32, 1, 86_400, 86_401].contains(&c.ttl);
    v.nt(boundary);
    v
}

fn mutation() -> impl Strategy<Value = Mutation> {
    prop_oneof![
        8 => Just(Mutation::None),
        2 => Just(Mutation::Name),
        1 => Just(Mutation::NameToNone),
        1 => Just(Mutation::Seq),
        2 => Just(Mutation::Ttl),
        1 => Just(Mutation::Timestamp),
        2 => Just(Mutation::EndpointPort),
        1 => Just(Mutation::EndpointAdded),
        1 => Just(Mutation::EndpointDevice),
        2 => (0u8..3).prop_map(Mutation::EndpointsReordered),
        1 => Just(Mutation::EndpointRemoved),
        1 => Just(Mutation::EndpointDuplicated),
        1 => (0u8..4).prop_map(Mutation::EndpointField),
        1 => Just(Mutation::Version),
        1 => Just(Mutation::UserId),
        1 => (0u8..4).prop_map(Mutation::PublicKey),
        2 => (any::<u16>(), any::<u8>()).prop_map(|(p, m)| Mutation::SigByte(p, m)),
        1 => (0u8..4).prop_map(Mutation::SignedByOther),
        1 => Just(Mutation::Unsigned),
    ]
}
fn rec_spec() -> impl Strategy<Value = RecSpec> {
    // small pools for (key, seq, ts) so that genuine and forged records collide on the cache key
    (0u8..4, prop_oneof![8 => Just(Uid::Derived), 2 => (0u8..4).prop_map(Uid::OfKey), 1 => any::<u8>().prop_map(Uid::Random)], 1u8..3, 0u8..3, prop_oneof![2 => 1u8..=3, 1 => 4u8..=5], prop_oneof![Just(300u32), Just(1u32), Just(86_400u32), 2u32..86_400], 0u16..2, mutation())
        .prop_map(|(key, uid, seq, name, endpoints, ttl, ts_back, mutation)| RecSpec { key, uid, seq, name, endpoints, ttl, ts_back, mutation })
}

pub fn run(run: &Run) {
    run.assume("records are built through the public constructor and sign(); alterations are applied to the public fields after signing; sampled bit flips do not argue unforgeability");
    run.assume("real ML-DSA-65 (the harness refuses to run with debug assertions on)");
    run.set_rule("history", "history (len 1..20, thorough 1..200) of records over 4 key pairs presented to one SignatureCache of capacity 1..8 or 100: genuine, field-altered (name, seq, ttl, timestamp, endpoints, version, user id, key), signature byte flips, signed by another key, unsigned, user id of another key; non-trivial = a forged and a genuine record sharing (user id, sequence, timestamp) were both presented, or the cache evicted");
    run.set_rule("bounds", "constructor arguments on and around the documented bounds (name 0/1/255/256 bytes, 0/1/16/17 endpoints, ttl 0/1/86400/86401) and random values; non-trivial = a boundary value");
    let sh = shards_for(run.tier);
    let _ = keys();
    let len = run.tier.pick(20usize, 200);
    // a presentation is either a fresh record or an earlier one presented again with exactly one other alteration
    // (so genuine and altered copies that differ in a single field meet in one cache)
    let step = || prop_oneof![1 => rec_spec().prop_map(|r| (None, r)), 1 => (any::<u16>(), rec_spec()).prop_map(|(i, r)| (Some(i), r))];
    let case = move || {
        (prop_oneof![3 => 1u8..=8, 1 => Just(0u8)], prop::collection::vec(step(), 1..len)).prop_map(|(capacity, steps)| {
            let mut presentations: Vec<RecSpec> = Vec::new();
            for (again, r) in steps {
                match again {
                    Some(i) if !presentations.is_empty() => {
                        let mut base = presentations[idx(i, presentations.len())].clone();
                        base.mutation = r.mutation;
                        presentations.push(base);
                    }
                    _ => presentations.push(r),
                }
            }
            Case { capacity, presentations }
        })
    };
    run.prop_f("history", run.tier.pick(12000, 120000), sh, case, run_case);
    let b = (prop_oneof![Just(0u16), Just(1), Just(255), Just(256), 2u16..600], prop_oneof![Just(0u8), Just(1), Just(16), Just(17), 0u8..24], prop_oneof![Just(0u32), Just(1), Just(86_400), Just(86_401), any::<u32>()]).prop_map(|(name_len, endpoints, ttl)| BoundCase { name_len, endpoints, ttl });
    run.prop("bounds", run.tier.pick(12000, 48000), sh, b, run_bounds);
}

pub fn replay(run: &Run, sub: &str, case: &Value) -> Option<bool> {
    match sub {
        "history" => Some(run.eval_case("replay/history", &from_value::<Case>(case)?, &run_case)),
        "bounds" => Some(run.eval_case("replay/bounds", &from_value::<BoundCase>(case)?, &run_bounds)),
        _ => None,
    }
}
