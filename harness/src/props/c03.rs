//! C03 — put stores on every replica it reports; get returns only stored bytes.
//! Real managers over the in-memory network; ground truth is read from every node's store
//! after every step.
use super::c01::{edges, tid_bytes, Topo};
use crate::engine::*;
use crate::memnet::*;
use proptest::prelude::*;
use saorsa_core::dht_network_manager::{DhtMessageType, DhtNetworkMessage, DhtNetworkOperation, DhtNetworkResult};
use saorsa_core::network::verif as wire;
use serde::{Deserialize, Serialize};
use serde_json::Value;
use std::collections::{HashMap, HashSet};
use std::time::Duration;

const ID: &str = "C03";
const T_REQ: Duration = Duration::from_secs(2);

#[derive(Debug, Clone, Serialize, Deserialize)]
pub enum Op {
    Put(u8, u8, u16),
    Get(u8, u8),
    StoreLocal(u8, u8, u16),
    /// a PUT request frame from an attached stub peer to node: (node, key, value length)
    RawPut(u8, u8, u16),
    SetMode(u8, Mode),
    /// fault in the middle of a later operation: node handles n more inbound frames, then switches to the mode
    SetModeAfter(u8, u8, Mode),
    /// put_with_targets(node, key, value length, target picks): a pick names a connected peer, any real node,
    /// a fabricated id, the node's stub or the node itself
    PutTargets(u8, u8, u16, Vec<u8>),
}
#[derive(Debug, Clone, Serialize, Deserialize)]
pub struct Case {
    n: u8,
    topo: Topo,
    id_seed: u8,
    ops: Vec<Op>,
}

fn key_of(k: u8, seed: u8) -> Key {
    *blake3::hash(&[k % 4, seed, 0x03]).as_bytes()
}
/// value of a requested length that names its key and a serial number (so values under different keys differ)
fn value(k: u8, serial: u32, len: u16) -> Vec<u8> {
    let mut v = vec![k % 4, serial as u8, (serial >> 8) as u8, 0xc3];
    v.resize(len as usize, (serial as u8) ^ 0x33);
    v.truncate(len as usize);
    v
}

fn run_case(c: &Case) -> Verdict {
    let rt = paused_rt();
    let pan0 = panic_count();
    let mut v = rt.block_on(async { run_async(c).await });
    attribute_task_panics(&mut v, ID, pan0);
    v
}

async fn stores(nodes: &[Node], keys: &[Key]) -> Vec<Vec<Option<Vec<u8>>>> {
    let mut out = Vec::new();
    for nd in nodes {
        let mut row = Vec::new();
        for k in keys {
            row.push(nd.mgr.get_local(k).await.ok().flatten());
        }
        out.push(row);
    }
    out
}

async fn run_async(c: &Case) -> Verdict {
    let mut v = Verdict::new();
    let n = (c.n as usize).clamp(1, 30);
    let hub = Hub::new(c.id_seed as u64, 0);
    let mut nodes = Vec::new();
    for i in 0..n {
        match add_node(&hub, tid_bytes(c.id_seed, i), node_addr(i), None, T_REQ, 8).await {
            Ok(x) => nodes.push(x),
            Err(e) => {
                v.fail(format!("{ID}/harness/node-construction-failed"), e);
                return v;
            }
        }
    }
    for (a, b) in edges(n, &c.topo) {
        let _ = nodes[a].th.connect_peer(&nodes[b].addr.to_string()).await;
    }
    // one stub per node for raw PUT frames (hostile or not); it never answers
    let mut stubs = Vec::new();
    for i in 0..n {
        let sb = *blake3::hash(&[c.id_seed, i as u8, 0x5b]).as_bytes();
        let addr = node_addr(100 + i);
        let sid = add_stub(&hub, sb, addr, StubScript::default());
        stubs.push(sid);
    }
    settle(50).await;
    let name_to_node: HashMap<String, usize> = nodes.iter().enumerate().map(|(i, nd)| (nd.tid.clone(), i)).collect();
    let keys: Vec<Key> = (0..4u8).map(|k| key_of(k, c.id_seed)).collect();
    let mut ever: Vec<HashSet<Vec<u8>>> = vec![HashSet::new(); 4];
    let mut modes: Vec<Mode> = vec![Mode::Up; n];
    let mut serial = 0u32;
    let mut nt = false;
    let mut last_put_remote: Option<usize> = None; // node that did a put with ≥1 remote replica
    // The reference model is sequential: an operation starts in a quiet network. A frame that a slow node (delay
    // above the request timeout) receives after its request timed out would otherwise still be in flight when the
    // next operation runs and could overwrite that operation's value (last writer wins) - a race between two
    // operations, which the property does not speak about. So after every operation the network is drained for
    // the longest delay configured so far (virtual time, free).
    let mut max_delay_ms: u64 = 0;
    for op in &c.ops {
        if let Op::SetMode(_, Mode::Slow(ms)) | Op::SetModeAfter(_, _, Mode::Slow(ms)) = op {
            max_delay_ms = max_delay_ms.max(*ms as u64);
        }
    }
    for (step, op) in c.ops.iter().enumerate() {
        if max_delay_ms > 0 && step > 0 {
            settle(max_delay_ms + 10).await;
        }
        match op {
            Op::SetMode(i, m) => {
                let i = *i as usize % n;
                modes[i] = *m;
                hub.set_mode(&nodes[i].tid, *m);
                if *m != Mode::Up {
                    nt = true;
                }
            }
            Op::SetModeAfter(i, after, m) => {
                let i = *i as usize % n;
                // the model treats the node as faulty from now on (its mode is only used to skip expectations)
                if *m != Mode::Up {
                    modes[i] = *m;
                    nt = true;
                }
                hub.set_mode_after(&nodes[i].tid, *after as u32, *m);
            }
            Op::PutTargets(i, k, len, picks) => {
                let i = *i as usize % n;
                if modes[i] != Mode::Up {
                    continue;
                }
                serial += 1;
                let ki = (*k % 4) as usize;
                let val = value(*k, serial, *len);
                let connected: Vec<String> = nodes[i].mgr.get_connected_peers().await.into_iter().map(|p| p.peer_id).collect();
                let mut targets: Vec<String> = Vec::new();
                for p in picks {
                    let t = match p % 8 {
                        0..=3 if !connected.is_empty() => connected[(*p as usize / 8) % connected.len()].clone(),
                        4 | 5 => nodes[(*p as usize / 8) % n].tid.clone(),
                        6 => hex::encode(blake3::hash(&[c.id_seed, *p, 0xf3]).as_bytes()),
                        _ => stubs[i].clone(),
                    };
                    if !targets.contains(&t) {
                        targets.push(t);
                    }
                }
                let before = stores(&nodes, &keys).await;
                hub.clear_trace();
                let r = tokio::time::timeout(T_REQ * 50, nodes[i].mgr.put_with_targets(keys[ki], val.clone(), &targets)).await;
                let trace = hub.trace();
                settle(5).await;
                let after = stores(&nodes, &keys).await;
                let r = match r {
                    Err(_) => {
                        v.fail(format!("{ID}/put_with_targets/did-not-complete"), format!("step {step}"));
                        break;
                    }
                    Ok(r) => r,
                };
                if *len > 512 {
                    nt = true;
                    if r.is_ok() {
                        v.fail(format!("{ID}/put_with_targets/oversized-value-accepted"), format!("step {step}: {len} bytes"));
                    }
                    if after != before {
                        v.fail(format!("{ID}/put_with_targets/oversized-value-entered-a-store"), format!("step {step}"));
                    }
                    continue;
                }
                let put_dests: HashSet<String> = trace.iter().filter_map(|e| match e { Ev::Frame { from, to, dht: Some(d), .. } if *from == nodes[i].tid && d.is_request && d.op == "Put" => Some(to.clone()), _ => None }).collect();
                match r {
                    Err(_) => v.class("put_with_targets_error"),
                    Ok(DhtNetworkResult::PutSuccess { peer_outcomes, replicated_to, .. }) => {
                        ever[ki].insert(val.clone());
                        if after[i][ki].as_ref() != Some(&val) {
                            v.fail(format!("{ID}/put_with_targets/accepted-but-not-held-locally"), format!("step {step}: node {i} reports PutSuccess(replicated_to={replicated_to})"));
                        }
                        let mut ok_remote = 0usize;
                        for o in &peer_outcomes {
                            if !targets.contains(&o.peer_id) {
                                v.fail(format!("{ID}/put_with_targets/outcome-for-a-peer-that-was-not-targeted"), format!("step {step}"));
                            }
                            if o.success {
                                ok_remote += 1;
                                if !put_dests.contains(&o.peer_id) {
                                    v.fail(format!("{ID}/put_with_targets/success-reported-for-a-peer-that-was-sent-nothing"), format!("step {step}"));
                                }
                                if let Some(j) = name_to_node.get(&o.peer_id) {
                                    if *j != i && after[*j][ki].as_ref() != Some(&val) {
                                        v.fail(format!("{ID}/put_with_targets/reported-replica-does-not-hold-the-value"), format!("step {step}: node {j} is reported as a successful replica of node {i}'s targeted put but holds {:?}", after[*j][ki].as_ref().map(|x| x.len())));
                                    }
                                }
                            }
                        }
                        // replicated_to counts the local copy plus the successful remote replicas
                        if replicated_to != 1 + ok_remote {
                            v.fail(format!("{ID}/put_with_targets/replica-count-differs-from-reported-outcomes"), format!("step {step}: replicated_to={replicated_to}, {ok_remote} successful outcomes"));
                        }
                        if targets.len() >= 2 {
                            nt = true;
                        }
                        v.class("targeted_put");
                    }
                    Ok(other) => v.fail(format!("{ID}/put_with_targets/unexpected-result"), format!("{other:?}")),
                }
            }
            Op::StoreLocal(i, k, len) => {
                let i = *i as usize % n;
                serial += 1;
                let val = value(*k, serial, *len);
                let before = stores(&nodes, &keys).await;
                let r = nodes[i].mgr.store_local(keys[(*k % 4) as usize], val.clone()).await;
                let after = stores(&nodes, &keys).await;
                if *len > 512 {
                    nt = true;
                    if r.is_ok() {
                        v.fail(format!("{ID}/store_local/oversized-value-accepted"), format!("step {step}: {} bytes", len));
                    }
                    if after != before {
                        v.fail(format!("{ID}/store_local/oversized-value-entered-a-store"), format!("step {step}"));
                    }
                } else {
                    match r {
                        Ok(()) => {
                            ever[(*k % 4) as usize].insert(val.clone());
                            if after[i][(*k % 4) as usize].as_ref() != Some(&val) {
                                v.fail(format!("{ID}/store_local/acknowledged-but-not-held-locally"), format!("step {step}: node {i} key {} ({} bytes); the node knows {} peers", k % 4, len, nodes[i].mgr.get_connected_peers().await.len()));
                            }
                        }
                        Err(e) => v.fail(format!("{ID}/store_local/valid-value-refused"), format!("step {step}: {e}")),
                    }
                }
            }
            Op::RawPut(i, k, len) => {
                let i = *i as usize % n;
                serial += 1;
                let val = value(*k, serial, *len);
                // make the stub a connected peer of node i, then inject its request
                let _ = nodes[i].th.connect_peer(&hub.addr_of(&stubs[i]).unwrap().to_string()).await;
                let msg = DhtNetworkMessage { message_id: format!("raw-{serial}"), source: stubs[i].clone(), target: Some(nodes[i].tid.clone()), message_type: DhtMessageType::Request, payload: DhtNetworkOperation::Put { key: keys[(*k % 4) as usize], value: val.clone() }, result: None, timestamp: now_secs(), ttl: 10, hop_count: 0 };
                let frame = wire::encode_wire_message("/dht/1.0.0", postcard::to_stdvec(&msg).unwrap_or_default(), &stubs[i], now_secs());
                let before = stores(&nodes, &keys).await;
                hub.inject(&stubs[i], &nodes[i].tid, frame).await;
                settle(20).await;
                let after = stores(&nodes, &keys).await;
                if *len > 512 {
                    nt = true;
                    if after != before {
                        v.fail(format!("{ID}/handle_dht_request(Put)/oversized-value-entered-a-store"), format!("step {step}: {} bytes from a remote peer", len));
                    }
                } else if after[i][(*k % 4) as usize].as_ref() == Some(&val) {
                    ever[(*k % 4) as usize].insert(val);
                } else if modes[i] == Mode::Up {
                    v.fail(format!("{ID}/handle_dht_request(Put)/remote-put-not-stored"), format!("step {step}: node {i} did not store a valid {len}-byte value sent by a connected peer"));
                }
            }
            Op::Put(i, k, len) => {
                let i = *i as usize % n;
                if modes[i] != Mode::Up {
                    continue;
                }
                serial += 1;
                let ki = (*k % 4) as usize;
                let val = value(*k, serial, *len);
                let all_up = modes.iter().all(|m| *m == Mode::Up);
                let before_lookup = if all_up && *len <= 512 { nodes[i].mgr.find_closest_nodes(&keys[ki], 8).await.ok() } else { None };
                let before = stores(&nodes, &keys).await;
                hub.clear_trace();
                let r = tokio::time::timeout(T_REQ * 50, nodes[i].mgr.put(keys[ki], val.clone())).await;
                let trace = hub.trace();
                settle(5).await;
                let after = stores(&nodes, &keys).await;
                if std::env::var("VERIF_DEBUG").is_ok() {
                    eprintln!("step {step} put by node {i} key {ki} len {len} at {:?}", hub.t());
                    for e in &trace {
                        match e {
                            Ev::Frame { t, from, to, dht: Some(d), .. } => eprintln!("  {t:?} frame {}→{} {} req={} {:?}", name_to_node.get(from).map(|x| x.to_string()).unwrap_or_default(), name_to_node.get(to).map(|x| x.to_string()).unwrap_or_default(), d.op, d.is_request, d.result),
                            Ev::Deliver { t, from, to, dht: Some(d), .. } => eprintln!("  {t:?} deliver {}→{} {} req={}", name_to_node.get(from).map(|x| x.to_string()).unwrap_or_default(), name_to_node.get(to).map(|x| x.to_string()).unwrap_or_default(), d.op, d.is_request),
                            _ => {}
                        }
                    }
                    eprintln!("  stores after: {:?}", after.iter().map(|r| r[ki].as_ref().map(|x| x.len())).collect::<Vec<_>>());
                }
                let r = match r {
                    Err(_) => {
                        v.fail(format!("{ID}/put/did-not-complete"), format!("step {step}"));
                        break;
                    }
                    Ok(r) => r,
                };
                if *len > 512 {
                    nt = true;
                    if r.is_ok() {
                        v.fail(format!("{ID}/put/oversized-value-accepted"), format!("step {step}: {len} bytes"));
                    }
                    if after != before {
                        v.fail(format!("{ID}/put/oversized-value-entered-a-store"), format!("step {step}"));
                    }
                    continue;
                }
                // PUT frames of this operation
                let mut dests: Vec<String> = Vec::new();
                let mut attempts: Vec<String> = Vec::new();
                // the lookup phase of put() ends with the last FIND_NODE traffic; send attempts after it belong to replication
                let lookup_end = trace.iter().rposition(|e| match e {
                    Ev::Frame { from, dht: Some(d), .. } => *from == nodes[i].tid && d.op == "FindNode",
                    Ev::Deliver { to, dht: Some(d), .. } => *to == nodes[i].tid && d.op == "FindNode",
                    _ => false,
                });
                for (pos, e) in trace.iter().enumerate() {
                    match e {
                        Ev::Frame { from, to, dht: Some(d), .. } if *from == nodes[i].tid && d.is_request && d.op == "Put" => dests.push(to.clone()),
                        Ev::Attempt { from, to, .. } if *from == nodes[i].tid && lookup_end.map(|l| pos > l).unwrap_or(true) => attempts.push(to.clone()),
                        _ => {}
                    }
                }
                if attempts.iter().any(|t| *t == nodes[i].tid) {
                    v.fail(format!("{ID}/put/addressed-itself-over-the-network"), format!("step {step}: node {i} tried to send to its own id"));
                }
                let dset: HashSet<&String> = dests.iter().collect();
                if dset.len() != dests.len() {
                    v.fail(format!("{ID}/put/same-peer-targeted-twice"), format!("step {step}: {} PUT frames to {} peers", dests.len(), dset.len()));
                }
                match r {
                    Err(e) => {
                        v.class("put_error");
                        let _ = e;
                    }
                    Ok(DhtNetworkResult::PutSuccess { peer_outcomes, replicated_to, .. }) => {
                        ever[ki].insert(val.clone());
                        if after[i][ki].as_ref() != Some(&val) {
                            v.fail(format!("{ID}/put/accepted-but-not-held-locally"), format!("step {step}: node {i} reports PutSuccess(replicated_to={replicated_to}) but its own store has {:?} bytes under the key", after[i][ki].as_ref().map(|x| x.len())));
                        }
                        let mut ok_remote = 0;
                        for o in &peer_outcomes {
                            if o.peer_id == nodes[i].tid {
                                v.fail(format!("{ID}/put/reports-itself-as-a-remote-replica"), format!("step {step}: outcome for own id: success={} {:?}", o.success, o.error));
                                continue;
                            }
                            if o.success {
                                ok_remote += 1;
                                match name_to_node.get(&o.peer_id) {
                                    Some(j) => {
                                        if after[*j][ki].as_ref() != Some(&val) {
                                            v.fail(format!("{ID}/put/reported-replica-does-not-hold-the-value"), format!("step {step}: node {j} is reported as a successful replica but holds {:?}", after[*j][ki].as_ref().map(|x| x.len())));
                                        }
                                    }
                                    None => {
                                        // a stub acknowledged: it holds nothing by construction
                                        v.class("stub_acknowledged");
                                    }
                                }
                            }
                        }
                        let oset: HashSet<&String> = peer_outcomes.iter().map(|o| &o.peer_id).filter(|p| **p != nodes[i].tid).collect();
                        // every PUT frame has an outcome; every outcome belongs to a peer that was addressed (a send that
                        // failed before framing leaves only an attempt, and the trace cannot tell its operation)
                        let dest_set: HashSet<&String> = dests.iter().collect();
                        let all_attempts: HashSet<&String> = trace.iter().filter_map(|e| match e { Ev::Attempt { from, to, .. } if *from == nodes[i].tid => Some(to), _ => None }).collect();
                        if !(dest_set.is_subset(&oset) && oset.is_subset(&all_attempts)) {
                            v.fail(format!("{ID}/put/reported-outcomes-differ-from-peers-addressed"), format!("step {step}: outcomes for {} peers, PUT frames to {}, send attempts to {}", oset.len(), dest_set.len(), all_attempts.len()));
                        }
                        for o in &peer_outcomes {
                            if o.success && !dest_set.contains(&o.peer_id) {
                                v.fail(format!("{ID}/put/success-reported-for-a-peer-that-was-sent-nothing"), format!("step {step}"));
                            }
                        }
                        if ok_remote > 0 {
                            last_put_remote = Some(i);
                        }
                        // quiescent network: targets are exactly the remote members of the lookup
                        if let Some(bl) = before_lookup {
                            let al = nodes[i].mgr.find_closest_nodes(&keys[ki], 8).await.ok();
                            if let Some(al) = al {
                                let b: Vec<&String> = bl.iter().map(|d| &d.peer_id).collect();
                                let a: Vec<&String> = al.iter().map(|d| &d.peer_id).collect();
                                if a == b {
                                    let want: HashSet<&String> = b.iter().cloned().filter(|p| **p != nodes[i].tid).collect();
                                    if want != dest_set {
                                        v.fail(format!("{ID}/put/targets-are-not-the-remote-members-of-the-closest-node-lookup"), format!("step {step}: lookup names {} remote nodes, PUT frames went to {}", want.len(), dest_set.len()));
                                    }
                                    v.class("quiescent_put_checked");
                                }
                            }
                        }
                    }
                    Ok(other) => v.fail(format!("{ID}/put/unexpected-result"), format!("{other:?}")),
                }
            }
            Op::Get(i, k) => {
                let i = *i as usize % n;
                if modes[i] != Mode::Up {
                    continue;
                }
                let ki = (*k % 4) as usize;
                let known_before: Vec<String> = nodes[i].mgr.find_closest_nodes_local(&keys[ki], 10_000).await.into_iter().map(|d| d.peer_id).collect();
                hub.clear_trace();
                let r = tokio::time::timeout(T_REQ * 50, nodes[i].mgr.get(&keys[ki])).await;
                let trace = hub.trace();
                match r {
                    Err(_) => {
                        v.fail(format!("{ID}/get/did-not-complete"), format!("step {step}"));
                        break;
                    }
                    Ok(Err(e)) => {
                        v.class("get_error");
                        let _ = e;
                    }
                    Ok(Ok(DhtNetworkResult::GetSuccess { value: got, .. })) => {
                        if !ever[ki].contains(&got) {
                            let other = (0..4).any(|o| o != ki && ever[o].contains(&got));
                            v.fail(format!("{ID}/get/{}", if other { "returned-bytes-stored-under-another-key" } else { "returned-bytes-nobody-stored" }), format!("step {step}: node {i} key {ki}: {} bytes", got.len()));
                        }
                        if last_put_remote.map(|p| p != i).unwrap_or(false) {
                            nt = true;
                        }
                    }
                    Ok(Ok(DhtNetworkResult::GetNotFound { .. })) => {
                        // every peer learned of was tried, unless the budget (20 rounds × 3) ran out
                        let mut learned: HashSet<String> = known_before.iter().cloned().collect();
                        let mut tried: HashSet<String> = HashSet::new();
                        let mut sent: HashMap<String, Duration> = HashMap::new();
                        let mut requests = 0usize;
                        // The budget is MAX_ITERATIONS = 20 rounds of 1..=3 requests.  A round ends only
                        // after each of its requests was answered or timed out, so between two rounds the
                        // trace holds a reply to the requester unless a whole round went unanswered:
                        //   rounds <= bursts + unanswered,
                        // where a burst is a maximal run of the requester's requests with no reply in between.
                        let mut bursts = 0usize;
                        let mut in_burst = false;
                        let mut answered: HashSet<String> = HashSet::new();
                        for e in &trace {
                            match e {
                                Ev::Frame { t, from, to, dht, .. } if *from == nodes[i].tid => {
                                    tried.insert(to.clone());
                                    if let Some(d) = dht {
                                        if d.is_request {
                                            requests += 1;
                                            if !in_burst {
                                                bursts += 1;
                                                in_burst = true;
                                            }
                                            sent.insert(d.message_id.clone(), *t);
                                        }
                                    }
                                }
                                Ev::Frame { to, dht: Some(d), .. } if *to == nodes[i].tid && !d.is_request => {
                                    in_burst = false;
                                    answered.insert(d.message_id.clone());
                                }
                                Ev::Attempt { from, to, .. } if *from == nodes[i].tid => {
                                    tried.insert(to.clone());
                                }
                                Ev::Dial { from, addr, .. } if *from == nodes[i].tid => {
                                    if let Some(id) = hub.id_at(addr) {
                                        tried.insert(id);
                                    }
                                }
                                Ev::Deliver { t, to, dht: Some(d), .. } if *to == nodes[i].tid && !d.is_request => {
                                    if let Some(s) = sent.get(&d.message_id) {
                                        if t.saturating_sub(*s) + Duration::from_millis(5) < T_REQ {
                                            learned.extend(d.named.iter().cloned());
                                        }
                                    }
                                }
                                _ => {}
                            }
                        }
                        learned.remove(&nodes[i].tid);
                        let untried: Vec<&String> = learned.iter().filter(|p| !tried.contains(*p)).collect();
                        if std::env::var("VERIF_DEBUG").is_ok() {
                            let nm = |x: &String| name_to_node.get(x).map(|j| format!("n{j}")).unwrap_or_else(|| x[..6].to_string());
                            eprintln!("known_before={:?} untried={:?}", known_before.iter().map(nm).collect::<Vec<_>>(), untried.iter().map(|x| nm(x)).collect::<Vec<_>>());
                            for e in &trace {
                                match e {
                                    Ev::Frame { t, from, to, dht: Some(d), .. } => eprintln!("  {t:?} frame {}→{} {} req={} {:?} named={:?}", nm(from), nm(to), d.op, d.is_request, d.result, d.named.iter().map(nm).collect::<Vec<_>>()),
                                    Ev::Attempt { t, from, to, .. } => eprintln!("  {t:?} attempt {}→{}", nm(from), nm(to)),
                                    _ => {}
                                }
                            }
                        }
                        let unanswered = sent.keys().filter(|m| !answered.contains(*m)).count();
                        let rounds_upper = bursts + unanswered;
                        if !untried.is_empty() {
                            if rounds_upper < 20 {
                                v.fail(format!("{ID}/get/not-found-reported-with-learned-peers-unqueried"), format!("step {step}: node {i} key {ki}: {} of {} learned peers never contacted after {requests} requests in at most {rounds_upper} rounds", untried.len(), learned.len()));
                            } else {
                                v.count("get_budget_exhausted", 1);
                            }
                        }
                        // a value held by a directly known, responsive peer must be found
                    }
                    Ok(Ok(other)) => v.fail(format!("{ID}/get/unexpected-result"), format!("{other:?}")),
                }
            }
        }
        if !v.ok() {
            break;
        }
    }
    v.nt(nt);
    v.class(format!("n_{}", if n == 1 { "1" } else if n <= 4 { "2-4" } else { "5+" }));
    for nd in &nodes {
        let _ = tokio::time::timeout(Duration::from_secs(600), nd.mgr.stop()).await;
    }
    v
}

fn len_pick() -> impl Strategy<Value = u16> {
    prop_oneof![3 => 0u16..64, 2 => 64u16..=510, 2 => prop_oneof![Just(511u16), Just(512u16), Just(513u16)], 1 => 514u16..=600]
}

pub fn run(run: &Run) {
    run.assume("same in-memory network and virtual clock as C01; ground truth is read with get_local on every node after every step");
    run.assume("values carry their key index and a serial number so that bytes stored under different keys are different");
    run.set_rule("history", "N real nodes (1..=12, thorough ..=30) in a generated topology; history (len 1..12, thorough ..40) of put / put_with_targets (connected, unconnected, fabricated and stub targets) / get / store_local / raw PUT frames from stub peers / fault changes (immediate, or after the node has handled 0..3 more frames, i.e. in the middle of a later operation) over 4 keys, values 0..=600 bytes with 511/512/513 over-weighted; non-trivial = a put with ≥1 remote replica followed by a get from another node, an oversize value, or a fault during the history");
    run.max_shrink.store(150, std::sync::atomic::Ordering::Relaxed);
    let sh = shards_for(run.tier);
    let maxn = run.tier.pick(12u8, 30);
    let maxlen = run.tier.pick(12usize, 40);
    let case = move || {
        let topo = prop_oneof![3 => Just(Topo::Mesh), 1 => Just(Topo::Ring), 1 => Just(Topo::Line), 1 => Just(Topo::Star), 1 => Just(Topo::Tree), 1 => Just(Topo::TwoCliques), 2 => (any::<u8>(), 20u8..160).prop_map(|(s, p)| Topo::Gnp(s, p))];
        let op = prop_oneof![
            6 => (any::<u8>(), 0u8..4, len_pick()).prop_map(|(i, k, l)| Op::Put(i, k, l)),
            6 => (any::<u8>(), 0u8..4).prop_map(|(i, k)| Op::Get(i, k)),
            2 => (any::<u8>(), 0u8..4, len_pick()).prop_map(|(i, k, l)| Op::StoreLocal(i, k, l)),
            2 => (any::<u8>(), 0u8..4, len_pick()).prop_map(|(i, k, l)| Op::RawPut(i, k, l)),
            2 => (any::<u8>(), prop_oneof![2 => Just(Mode::Up), 2 => Just(Mode::Silent), 1 => Just(Mode::Dead), 1 => (1u32..1500).prop_map(Mode::Slow)]).prop_map(|(i, m)| Op::SetMode(i, m)),
            2 => (any::<u8>(), 0u8..4, prop_oneof![3 => Just(Mode::Silent), 1 => Just(Mode::Dead), 1 => (1u32..1500).prop_map(Mode::Slow), 1 => (2100u32..3000).prop_map(Mode::Slow)]).prop_map(|(i, a, m)| Op::SetModeAfter(i, a, m)),
            2 => (any::<u8>(), 0u8..4, len_pick(), prop::collection::vec(any::<u8>(), 0..6)).prop_map(|(i, k, l, t)| Op::PutTargets(i, k, l, t)),
        ];
        (1u8..=maxn, topo, any::<u8>(), prop::collection::vec(op, 1..=maxlen)).prop_map(|(n, topo, id_seed, ops)| Case { n, topo, id_seed, ops })
    };
    run.prop_f("history", run.tier.pick(8000, 64000), sh, case, run_case);
}

pub fn replay(run: &Run, sub: &str, case: &Value) -> Option<bool> {
    match sub {
        "history" => Some(run.eval_case("replay/history", &from_value::<Case>(case)?, &run_case)),
        _ => None,
    }
}
