//! C01 — iterative lookup returns the K closest responsive nodes it could learn of.
//! Real DhtNetworkManagers over the in-memory network, virtual time. Oracle: trace invariants
//! plus ground-truth closest set (distances recomputed here with blake3).
use crate::engine::*;
use crate::memnet::*;
use proptest::prelude::*;
use saorsa_core::dht_network_manager::DHTNode;
use serde::{Deserialize, Serialize};
use serde_json::Value;
use std::collections::{HashMap, HashSet};
use std::time::Duration;

const ID: &str = "C01";
const T_REQ: Duration = Duration::from_secs(2);

#[derive(Debug, Clone, Serialize, Deserialize)]
pub enum Topo {
    Mesh,
    Ring,
    Line,
    Star,
    Tree,
    TwoCliques,
    Gnp(u8, u8),
}
#[derive(Debug, Clone, Serialize, Deserialize)]
pub enum KeyPick {
    Random(u8),
    OfNode(u8),
    NearStart(u8),
}
#[derive(Debug, Clone, Serialize, Deserialize)]
pub enum Name {
    /// a fabricated id nobody owns
    Unknown(u8),
    /// a real node (index)
    Real(u8),
    /// the requester itself
    Requester,
    /// the requester under one of its other names: 0 transport id, 1 application id, 2 hex of its DHT key
    /// (the name routing-table entries carry), 3 hex of the DHT key of its application id
    RequesterAlias(u8),
    /// the liar itself
    Me,
    /// a real node with a forged `distance` field claiming it sits on the key
    RealForgedDistance(u8),
    /// a fabricated id with a forged distance
    UnknownForgedDistance(u8),
}
#[derive(Debug, Clone, Serialize, Deserialize)]
pub struct Liar {
    /// which real node it is connected to
    attached: u8,
    names: Vec<Name>,
}
#[derive(Debug, Clone, Serialize, Deserialize)]
pub struct Case {
    n: u8,
    topo: Topo,
    id_seed: u8,
    key: KeyPick,
    k: u8,
    start: u8,
    faults: Vec<(u8, Mode)>,
    liars: Vec<Liar>,
    distinct_app_ids: bool,
    jitter_ms: u8,
}

pub fn edges(n: usize, t: &Topo) -> Vec<(usize, usize)> {
    let mut e = Vec::new();
    match t {
        Topo::Mesh => {
            for i in 0..n {
                for j in (i + 1)..n {
                    e.push((i, j));
                }
            }
        }
        Topo::Ring => {
            for i in 0..n {
                if n > 1 && (i + 1) % n != i {
                    let (a, b) = (i, (i + 1) % n);
                    if a < b || n > 2 {
                        e.push((a.min(b), a.max(b)));
                    }
                }
            }
        }
        Topo::Line => {
            for i in 0..n.saturating_sub(1) {
                e.push((i, i + 1));
            }
        }
        Topo::Star => {
            for i in 1..n {
                e.push((0, i));
            }
        }
        Topo::Tree => {
            for i in 1..n {
                e.push(((i - 1) / 2, i));
            }
        }
        Topo::TwoCliques => {
            let h = n / 2;
            for i in 0..h {
                for j in (i + 1)..h {
                    e.push((i, j));
                }
            }
            for i in h..n {
                for j in (i + 1)..n {
                    e.push((i, j));
                }
            }
            if h > 0 && h < n {
                e.push((h - 1, h));
            }
        }
        Topo::Gnp(seed, p) => {
            for i in 0..n {
                for j in (i + 1)..n {
                    let h = blake3::hash(&[*seed, i as u8, j as u8]);
                    if h.as_bytes()[0] < *p || j == i + 1 {
                        e.push((i, j));
                    }
                }
            }
        }
    }
    e.sort();
    e.dedup();
    e
}

pub fn tid_bytes(seed: u8, i: usize) -> [u8; 32] {
    *blake3::hash(&[seed, i as u8, 0x01]).as_bytes()
}
fn fake_id(seed: u8, x: u8) -> String {
    hex::encode(blake3::hash(&[seed, x, 0xfa]).as_bytes())
}

struct World {
    nodes: Vec<Node>,
    /// every name a real node can appear under → node index
    names: HashMap<String, usize>,
}
impl World {
    fn resolve(&self, name: &str) -> Option<usize> {
        self.names.get(name).cloned()
    }
    /// identity of a name for "distinct node" purposes
    fn ident(&self, name: &str) -> String {
        match self.resolve(name) {
            Some(i) => format!("node{i}"),
            None => format!("name:{name}"),
        }
    }
    fn key_of_name(&self, name: &str) -> Key {
        match self.resolve(name) {
            Some(i) => dht_key_of(&self.nodes[i].tid),
            None => dht_key_of(name),
        }
    }
}

fn run_case(c: &Case) -> Verdict {
    let rt = paused_rt();
    let pan0 = panic_count();
    let mut v = rt.block_on(async { run_async(c).await });
    attribute_task_panics(&mut v, ID, pan0);
    v
}

async fn run_async(c: &Case) -> Verdict {
    let mut v = Verdict::new();
    let n = (c.n as usize).clamp(2, 60);
    let hub = Hub::new(c.id_seed as u64, c.jitter_ms as u64);
    let mut nodes = Vec::new();
    for i in 0..n {
        let app = if c.distinct_app_ids { Some(format!("peer_{}", hex::encode(&blake3::hash(&[c.id_seed, i as u8, 0xa9]).as_bytes()[..8]))) } else { None };
        match add_node(&hub, tid_bytes(c.id_seed, i), node_addr(i), app, T_REQ, 8).await {
            Ok(x) => nodes.push(x),
            Err(e) => {
                v.fail(format!("{ID}/harness/node-construction-failed"), e);
                return v;
            }
        }
    }
    let mut names = HashMap::new();
    for (i, nd) in nodes.iter().enumerate() {
        names.insert(nd.tid.clone(), i);
        names.insert(nd.app_id.clone(), i);
        names.insert(hex::encode(dht_key_of(&nd.tid)), i);
        names.insert(hex::encode(dht_key_of(&nd.app_id)), i);
    }
    let w = World { nodes, names };
    for (a, b) in edges(n, &c.topo) {
        let _ = w.nodes[a].th.connect_peer(&w.nodes[b].addr.to_string()).await;
    }
    settle(50).await;
    let start = (c.start as usize) % n;
    let me = &w.nodes[start];
    let key: Key = match &c.key {
        KeyPick::Random(x) => *blake3::hash(&[*x, 0x4b, c.id_seed]).as_bytes(),
        KeyPick::OfNode(i) => dht_key_of(&w.nodes[*i as usize % n].tid),
        KeyPick::NearStart(x) => {
            let mut k = dht_key_of(&me.tid);
            k[31] ^= *x | 1;
            k[20] ^= *x;
            k
        }
    };
    // liars (stubs) attached to real nodes
    let mut liar_ids = Vec::new();
    for (li, l) in c.liars.iter().enumerate() {
        let at = (l.attached as usize) % n;
        let sid_bytes = *blake3::hash(&[c.id_seed, li as u8, 0x11]).as_bytes();
        let sid = hex::encode(sid_bytes);
        let addr = node_addr(100 + li);
        let mut reply = Vec::new();
        for nm in &l.names {
            let (pid, addr_s, dist) = match nm {
                Name::Unknown(x) => (fake_id(c.id_seed, *x), node_addr(300 + *x as usize).to_string(), None),
                Name::UnknownForgedDistance(x) => (fake_id(c.id_seed, *x), node_addr(300 + *x as usize).to_string(), Some(key.to_vec())),
                Name::Real(i) => {
                    let nd = &w.nodes[*i as usize % n];
                    (nd.tid.clone(), nd.addr.to_string(), None)
                }
                Name::RealForgedDistance(i) => {
                    let nd = &w.nodes[*i as usize % n];
                    (nd.tid.clone(), nd.addr.to_string(), Some(key.to_vec()))
                }
                Name::Requester => (me.tid.clone(), me.addr.to_string(), None),
                Name::RequesterAlias(a) => (
                    match a % 4 {
                        0 => me.tid.clone(),
                        1 => me.app_id.clone(),
                        2 => hex::encode(dht_key_of(&me.tid)),
                        _ => hex::encode(dht_key_of(&me.app_id)),
                    },
                    me.addr.to_string(),
                    None,
                ),
                Name::Me => (sid.clone(), addr.to_string(), None),
            };
            reply.push(DHTNode { peer_id: pid, address: addr_s, distance: dist, reliability: 1.0, cached_dht_key: None });
        }
        add_stub(&hub, sid_bytes, addr, StubScript { reply_nodes: reply, ack_put: true, value: None, wrong_id: false, raw_result: None });
        let _ = w.nodes[at].th.connect_peer(&addr.to_string()).await;
        liar_ids.push(sid);
    }
    for (i, m) in &c.faults {
        let i = *i as usize % n;
        if i != start {
            hub.set_mode(&w.nodes[i].tid, *m);
        }
    }
    settle(50).await;
    let k = c.k as usize;
    // what the start node knows before the lookup
    let known_before: Vec<String> = me.mgr.find_closest_nodes_local(&key, 10_000).await.into_iter().map(|d| d.peer_id).collect();
    hub.clear_trace();
    let bound = T_REQ * (2 * 20 + 2);
    let t0 = tokio::time::Instant::now();
    let res = tokio::time::timeout(bound, me.mgr.find_closest_nodes(&key, k)).await;
    let took = t0.elapsed();
    let site = "find_closest_nodes_network";
    let result = match res {
        Err(_) => {
            v.fail(format!("{ID}/{site}/did-not-complete-within-bound"), format!("no result after {bound:?} of virtual time"));
            return v;
        }
        Ok(Err(e)) => {
            v.class("lookup_error");
            v.fail(format!("{ID}/{site}/returned-error"), e.to_string());
            return v;
        }
        Ok(Ok(r)) => r,
    };
    let trace = hub.trace();
    if std::env::var("VERIF_DEBUG").is_ok() {
        eprintln!("start={start} key={} known_before={:?}", hex::encode(&key[..4]), known_before.iter().map(|x| w.ident(x)).collect::<Vec<_>>());
        eprintln!("result={:?}", result.iter().map(|d| (w.ident(&d.peer_id), hex::encode(&xor(&w.key_of_name(&d.peer_id), &key)[..3]))).collect::<Vec<_>>());
        for (i, nd) in w.nodes.iter().enumerate() {
            eprintln!("  node{i} dist={} rt={}", hex::encode(&xor(&dht_key_of(&nd.tid), &key)[..3]), nd.mgr.get_routing_table_size().await);
        }
        for e in &trace {
            eprintln!("  {:?}", match e {
                Ev::Dial { from, addr, to, .. } => format!("dial {}→{addr} ok={}", w.ident(from), to.is_some()),
                Ev::Attempt { from, to, .. } => format!("attempt {}→{}", w.ident(from), w.ident(to)),
                Ev::Frame { from, to, dht, .. } => format!("frame {}→{} {:?}", w.ident(from), w.ident(to), dht.as_ref().map(|d| (d.op, d.is_request, d.result, d.named.iter().map(|n| w.ident(n)).collect::<Vec<_>>()))),
                Ev::Deliver { from, to, dht, .. } => format!("deliver {}→{} {:?}", w.ident(from), w.ident(to), dht.as_ref().map(|d| (d.op, d.is_request))),
                Ev::Drop { from, to, why, .. } => format!("drop {}→{} {why}", w.ident(from), w.ident(to)),
            });
        }
    }
    // ---- collect facts from the trace
    // the names under which the node can know itself: transport id, application id, hex of its DHT key (derived from
    // the application id). With distinct application ids hex(key(transport id)) is just an unknown identifier.
    let my_names: HashSet<String> = [me.tid.clone(), me.app_id.clone(), hex::encode(dht_key_of(&me.app_id))].into_iter().collect();
    // a liar may attach the requester's own address to an identifier the requester cannot recognise as itself;
    // dialling that address is then not a request to itself (the transport refuses the self-connection)
    let own_addr_under_foreign_name = c.liars.iter().any(|l| l.names.iter().any(|nm| matches!(nm, Name::RequesterAlias(a) if a % 4 == 2 && c.distinct_app_ids)));
    let mut find_node_frames: Vec<(String, String)> = Vec::new(); // (to, msg id)
    let mut attempts: HashSet<String> = HashSet::new();
    let mut dials: HashSet<String> = HashSet::new();
    let mut replied: HashMap<String, Vec<String>> = HashMap::new(); // from → named
    let mut my_requests: HashSet<String> = HashSet::new();
    let mut ambiguous: HashSet<String> = HashSet::new();
    let mut frames_from_me = 0usize;
    let mut sent_at: HashMap<String, Duration> = HashMap::new();
    for e in &trace {
        match e {
            Ev::Frame { t, from, to, dht, .. } if *from == me.tid => {
                if let Some(d) = dht {
                    if d.is_request {
                        sent_at.insert(d.message_id.clone(), *t);
                    }
                }
                frames_from_me += 1;
                attempts.insert(w.ident(to));
                if let Some(d) = dht {
                    if d.is_request && d.op == "FindNode" {
                        find_node_frames.push((to.clone(), d.message_id.clone()));
                        my_requests.insert(d.message_id.clone());
                    }
                }
                if my_names.contains(to) {
                    v.fail(format!("{ID}/{site}/request-sent-to-the-local-node"), format!("frame addressed to {to}"));
                }
            }
            Ev::Attempt { from, to, .. } if *from == me.tid => {
                attempts.insert(w.ident(to));
                if my_names.contains(to) {
                    v.fail(format!("{ID}/{site}/request-sent-to-the-local-node"), format!("send attempt addressed to {}…", &to[..to.len().min(12)]));
                }
            }
            Ev::Dial { from, addr, .. } if *from == me.tid => {
                if let Some(id) = hub.id_at(addr) {
                    dials.insert(w.ident(&id));
                } else {
                    dials.insert(format!("addr:{addr}"));
                }
                if *addr == me.addr && !own_addr_under_foreign_name {
                    v.fail(format!("{ID}/{site}/request-sent-to-the-local-node"), "dialled its own address".to_string());
                }
            }
            _ => {}
        }
    }
    for e in &trace {
        if let Ev::Deliver { t, from, to, dht: Some(d), .. } = e {
            if *to == me.tid && !d.is_request && my_requests.contains(&d.message_id) {
                // a reply counts if it arrived while its request was still pending (a late one is discarded, C04);
                // replies within 5 ms of the deadline are ambiguous and count for neither side
                let age = t.saturating_sub(*sent_at.get(&d.message_id).unwrap_or(&Duration::ZERO));
                if age + Duration::from_millis(5) < T_REQ {
                    replied.entry(w.ident(from)).or_default().extend(d.named.iter().cloned());
                } else if age <= T_REQ + Duration::from_millis(5) {
                    ambiguous.insert(w.ident(from));
                }
            }
        }
    }
    // Upper bound on the number of rounds the lookup ran (its budget is MAX_ITERATIONS = 20 rounds of up to ALPHA
    // requests): a round ends only when each of its requests was answered or timed out, so between two rounds a
    // reply is delivered to the requester unless a whole round went unanswered:  rounds <= bursts + unanswered,
    // a burst being a maximal run of the requester's FIND_NODE frames with no reply delivered in between.
    let mut bursts = 0usize;
    let mut in_burst = false;
    let mut answered_in_time: HashSet<String> = HashSet::new();
    for e in &trace {
        match e {
            Ev::Frame { from, dht: Some(d), .. } if *from == me.tid && d.is_request && d.op == "FindNode" => {
                if !in_burst {
                    bursts += 1;
                    in_burst = true;
                }
            }
            Ev::Deliver { t, to, dht: Some(d), .. } if *to == me.tid && !d.is_request && my_requests.contains(&d.message_id) => {
                in_burst = false;
                let age = t.saturating_sub(*sent_at.get(&d.message_id).unwrap_or(&Duration::ZERO));
                if age + Duration::from_millis(5) < T_REQ {
                    answered_in_time.insert(d.message_id.clone());
                }
            }
            _ => {}
        }
    }
    let rounds_upper = bursts + my_requests.iter().filter(|m| !answered_in_time.contains(*m)).count();
    let budget_may_be_spent = rounds_upper >= 20;
    if budget_may_be_spent {
        v.class("round_budget_possibly_spent");
    }
    // (a) bounded
    v.check(frames_from_me <= 1000, &format!("{ID}/{site}/more-than-1000-request-frames"), || format!("{frames_from_me} frames"));
    // (e) at most one FIND_NODE per destination node
    let mut per_dest: HashMap<String, usize> = HashMap::new();
    for (to, _) in &find_node_frames {
        *per_dest.entry(w.ident(to)).or_insert(0) += 1;
    }
    if let Some((d, c2)) = per_dest.iter().find(|(_, c)| **c > 1) {
        v.fail(format!("{ID}/{site}/peer-queried-twice-in-one-lookup"), format!("{d} received {c2} FIND_NODE requests"));
    }
    let id_agnostic_only = c.distinct_app_ids;
    if !id_agnostic_only {
        // (b) shape of the result
        v.check(result.len() <= k, &format!("{ID}/{site}/more-than-k-nodes-returned"), || format!("k={k}, {} returned", result.len()));
        let idents: Vec<String> = result.iter().map(|d| w.ident(&d.peer_id)).collect();
        let uniq: HashSet<&String> = idents.iter().collect();
        if uniq.len() != idents.len() {
            v.fail(format!("{ID}/{site}/same-node-returned-under-two-names"), format!("{:?}", result.iter().map(|d| format!("{}…→{}", &d.peer_id[..8.min(d.peer_id.len())], w.ident(&d.peer_id))).collect::<Vec<_>>()));
        }
        let dists: Vec<Key> = result.iter().map(|d| xor(&w.key_of_name(&d.peer_id), &key)).collect();
        if dists.windows(2).any(|p| p[0] > p[1]) {
            v.fail(format!("{ID}/{site}/result-not-in-ascending-xor-distance"), format!("{:?}", dists.iter().map(|d| hex::encode(&d[..3])).collect::<Vec<_>>()));
        }
        for d in &result {
            let idn = w.ident(&d.peer_id);
            let is_me = w.resolve(&d.peer_id) == Some(start);
            if !is_me && !replied.contains_key(&idn) && !ambiguous.contains(&idn) {
                v.fail(format!("{ID}/{site}/returned-peer-that-did-not-answer"), format!("{}… ({idn}) is in the result but no reply of it to this lookup was delivered", &d.peer_id[..8.min(d.peer_id.len())]));
                break;
            }
        }
        // (c) nothing closer left unqueried
        let mut learned: HashSet<String> = known_before.iter().cloned().collect();
        for names in replied.values() {
            learned.extend(names.iter().cloned());
        }
        let result_idents: HashSet<String> = idents.iter().cloned().collect();
        let far: Option<Key> = if result.len() >= k && k > 0 { dists.last().cloned() } else { None };
        let mut learned_idents: HashMap<String, Key> = HashMap::new();
        for nm in &learned {
            if my_names.contains(nm) {
                continue;
            }
            learned_idents.insert(w.ident(nm), xor(&w.key_of_name(nm), &key));
        }
        if k > 0 {
            for (idn, dist) in &learned_idents {
                let closer = far.map(|f| *dist < f).unwrap_or(true);
                if !closer {
                    continue;
                }
                let tried = attempts.contains(idn) || dials.contains(idn);
                if !tried && budget_may_be_spent {
                    // "the number of requests is bounded whatever peers reply": after 20 rounds the lookup may stop
                    v.class("closer_peer_unqueried_after_20_rounds");
                    break;
                }
                if !tried {
                    v.fail(format!("{ID}/{site}/closer-learned-peer-left-unqueried"), format!("{idn} at distance {}… is closer than the farthest returned node ({}) but was never contacted; result {} of k={k}", hex::encode(&dist[..3]), far.map(|f| hex::encode(&f[..3])).unwrap_or_else(|| "n/a".into()), result.len()));
                    break;
                }
                if replied.contains_key(idn) && !result_idents.contains(idn) {
                    v.fail(format!("{ID}/{site}/closer-answering-peer-missing-from-result"), format!("{idn} answered and is closer than the farthest returned node but is not in the result"));
                    break;
                }
            }
        }
        // (c') full mesh, everybody responsive, no liars: exactly the min(K,N) globally closest
        if matches!(c.topo, Topo::Mesh) && c.faults.is_empty() && c.liars.is_empty() && n <= 40 {
            let mut all: Vec<(Key, usize)> = (0..n).map(|i| (xor(&dht_key_of(&w.nodes[i].tid), &key), i)).collect();
            all.sort();
            let want: Vec<usize> = all.iter().take(k.min(n)).map(|x| x.1).collect();
            let got: Vec<Option<usize>> = result.iter().map(|d| w.resolve(&d.peer_id)).collect();
            if got != want.iter().map(|x| Some(*x)).collect::<Vec<_>>() {
                v.fail(format!("{ID}/{site}/full-mesh-result-is-not-the-k-globally-closest"), format!("n={n} k={k}: got nodes {:?}, the globally closest are {:?}", got, want));
            }
            v.class("full_mesh_all_responsive");
        }
    }
    let rounds = find_node_frames.len().div_ceil(3);
    v.nt(rounds >= 2 || !c.faults.is_empty() || !c.liars.is_empty());
    v.class(format!("topo_{}", match c.topo { Topo::Mesh => "mesh", Topo::Ring => "ring", Topo::Line => "line", Topo::Star => "star", Topo::Tree => "tree", Topo::TwoCliques => "two_cliques", Topo::Gnp(..) => "gnp" }));
    if !c.liars.is_empty() {
        v.class("with_liar");
    }
    if !c.faults.is_empty() {
        v.class("with_faults");
    }
    if id_agnostic_only {
        v.class("distinct_app_ids(d,e only)");
    }
    v.count("find_node_requests", find_node_frames.len() as u64);
    v.count("virtual_ms", took.as_millis() as u64);
    // orderly shutdown so that no task outlives the case
    for nd in &w.nodes {
        let _ = tokio::time::timeout(Duration::from_secs(600), nd.mgr.stop()).await;
    }
    v
}

pub fn mode() -> impl Strategy<Value = Mode> {
    prop_oneof![3 => Just(Mode::Silent), 2 => Just(Mode::Dead), 2 => (1u32..1500).prop_map(Mode::Slow), 1 => (2100u32..4000).prop_map(Mode::Slow)]
}
fn name() -> impl Strategy<Value = Name> {
    prop_oneof![4 => (0u8..12).prop_map(Name::Unknown), 4 => any::<u8>().prop_map(Name::Real), 1 => Just(Name::Requester), 2 => (0u8..4).prop_map(Name::RequesterAlias), 1 => Just(Name::Me), 1 => any::<u8>().prop_map(Name::RealForgedDistance), 1 => (0u8..12).prop_map(Name::UnknownForgedDistance)]
}

pub fn case(max_n: u8) -> impl Strategy<Value = Case> {
    let topo = prop_oneof![3 => Just(Topo::Mesh), 1 => Just(Topo::Ring), 1 => Just(Topo::Line), 1 => Just(Topo::Star), 1 => Just(Topo::Tree), 1 => Just(Topo::TwoCliques), 2 => (any::<u8>(), 20u8..160).prop_map(|(s, p)| Topo::Gnp(s, p))];
    let key = prop_oneof![3 => any::<u8>().prop_map(KeyPick::Random), 1 => any::<u8>().prop_map(KeyPick::OfNode), 1 => any::<u8>().prop_map(KeyPick::NearStart)];
    let k = prop_oneof![1 => Just(0u8), 1 => Just(1u8), 1 => Just(2u8), 1 => Just(3u8), 4 => Just(8u8), 1 => Just(16u8), 1 => Just(20u8)];
    let faults = prop_oneof![3 => Just(Vec::new()), 2 => prop::collection::vec((any::<u8>(), mode()), 1..4)];
    let liars = prop_oneof![3 => Just(Vec::new()), 1 => prop::collection::vec((any::<u8>(), prop::collection::vec(name(), 1..9)).prop_map(|(attached, names)| Liar { attached, names }), 1..3)];
    let general = (2u8..=max_n, topo, any::<u8>(), key, k, any::<u8>(), faults, liars, prop::bool::weighted(0.15), prop_oneof![2 => Just(0u8), 1 => 1u8..40]).prop_map(|(n, topo, id_seed, key, k, start, faults, liars, distinct_app_ids, jitter_ms)| Case { n, topo, id_seed, key, k, start, faults, liars, distinct_app_ids, jitter_ms });
    // "hub" scenarios: the requester is the centre of a star (or the root of a tree), so most peers it asks know
    // nobody but the requester and answer without a node list; small K so the result fills up early
    let hub = (5u8..=max_n.max(6), prop_oneof![2 => Just(Topo::Star), 1 => Just(Topo::Tree)], any::<u8>(), any::<u8>(), 1u8..=4, prop_oneof![3 => Just(Vec::new()), 1 => prop::collection::vec((any::<u8>(), mode()), 1..3)])
        .prop_map(|(n, topo, id_seed, kx, k, faults)| Case { n, topo, id_seed, key: KeyPick::Random(kx), k, start: 0, faults, liars: Vec::new(), distinct_app_ids: false, jitter_ms: 0 });
    prop_oneof![4 => general, 1 => hub]
}

pub fn run(run: &Run) {
    run.assume("QUIC is replaced by an in-memory hub below TransportHandle::send_message / above its receive dispatcher; framing, peer tables, pending tables, DHT manager and core engine are the shipped code");
    run.assume("virtual time (tokio paused clock): delivery order and timeouts are a function of the seed; liars name at most 12 distinct fabricated ids so the documented budget (α=3 × 20 rounds) can satisfy the completeness clause; a lookup that may have used all 20 rounds (rounds ≤ request bursts + unanswered requests, from the trace) is excused from the completeness clause only - 'the number of requests is bounded whatever peers reply' - and counted as class round_budget_possibly_spent");
    run.assume("with distinct application-level ids the local node's own key is ambiguous, so only the id-agnostic clauses (no self request, no double query, bounded) are asserted there");
    run.set_rule("lookup", "N real nodes (2..=24, thorough ..=60) in mesh/ring/line/star/tree/two-cliques/G(n,p), random ids, key random / a node's key / near the requester, K∈{0,1,2,3,8,16,20}, per-peer faults (silent, dead, slow below/above the timeout), lying stub peers naming unknown, real, requester, self ids and forged distances; non-trivial = ≥2 query rounds or a faulty/lying peer; distinct by case hash");
    run.max_shrink.store(150, std::sync::atomic::Ordering::Relaxed);
    let sh = shards_for(run.tier);
    run.prop_f("lookup", run.tier.pick(8000, 64000), sh, || case(24), run_case);
    if run.tier == Tier::Thorough {
        run.prop_f("lookup", 300, sh, || case(60), run_case);
    }
}

pub fn replay(run: &Run, sub: &str, case: &Value) -> Option<bool> {
    match sub {
        "lookup" => Some(run.eval_case("replay/lookup", &from_value::<Case>(case)?, &run_case)),
        _ => None,
    }
}
