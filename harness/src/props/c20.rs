//! C20 — concurrent DHT operations and shutdown always complete; nothing runs after.
//! The harness owns the clock (tokio paused time), so "did not finish within the bound" is decided,
//! not guessed. Seeded start offsets, per-frame delays, silence injection and stop points.
use super::c01::{edges, tid_bytes, Topo};
use crate::engine::*;
use crate::memnet::*;
use proptest::prelude::*;
use saorsa_core::dht_network_manager::{DhtMessageType, DhtNetworkMessage, DhtNetworkOperation};
use saorsa_core::network::verif as wire;
use serde::{Deserialize, Serialize};
use serde_json::Value;
use std::sync::Arc;
use std::time::Duration;

const ID: &str = "C20";
const T_REQ: Duration = Duration::from_secs(2);

#[derive(Debug, Clone, Serialize, Deserialize)]
pub enum Kind {
    Lookup(u8),
    Put(u8, u8),
    Get(u8),
    Ping(u8),
    /// an inbound request frame from a stub peer: 0 FindNode, 1 FindValue, 2 Put, 3 Ping, 4 Get
    Inbound(u8, u8),
    /// the node dials another real node (any, possibly one it already knows)
    Connect(u8),
    /// the node dials a peer nobody has seen before (a fresh stub)
    ConnectFresh,
    /// a peer nobody has seen before connects to the node (accept path)
    InboundConnect,
}
#[derive(Debug, Clone, Serialize, Deserialize)]
pub struct OpSpec {
    node: u8,
    at_ms: u16,
    kind: Kind,
    /// the caller gives up after this many ms and drops the operation's future mid-flight (select!/timeout/abort)
    #[serde(default)]
    cancel_after_ms: Option<u16>,
}
#[derive(Debug, Clone, Serialize, Deserialize)]
pub struct Case {
    n: u8,
    topo: Topo,
    id_seed: u8,
    jitter_ms: u16,
    ops: Vec<OpSpec>,
    /// (node, at ms, mode)
    silences: Vec<(u8, u16, Mode)>,
    /// (node, at ms); None = nobody is stopped
    stop: Option<(u8, u16)>,
    /// seeded scheduling noise: every send/dial yields to the scheduler 0..=yields times first
    #[serde(default)]
    yields: u8,
    /// stop() is issued on the node of operation #k at the very instant that operation starts (overrides `stop`)
    #[serde(default)]
    stop_with_op: Option<u8>,
}

fn key_of(k: u8, seed: u8) -> Key {
    *blake3::hash(&[k % 5, seed, 0x20]).as_bytes()
}

fn run_case(c: &Case) -> Verdict {
    let rt = paused_rt();
    let pan0 = panic_count();
    let mut v = rt.block_on(async { run_async(c, false).await });
    attribute_task_panics(&mut v, ID, pan0);
    v
}

/// The same scenario on 4 worker threads and the real clock: request timeout 200 ms, every offset and delay
/// divided by 10. Real time is not owned by the harness, so only gross excess is decided: an operation or stop()
/// that has not returned after 60 s (the whole budget of a lookup is 8.4 s) is a hang.
fn run_case_threads(c: &Case) -> Verdict {
    let rt = tokio::runtime::Builder::new_multi_thread().worker_threads(4).enable_all().build().expect("runtime");
    let pan0 = panic_count();
    let mut v = rt.block_on(async { run_async(c, true).await });
    rt.shutdown_timeout(Duration::from_secs(5));
    attribute_task_panics(&mut v, ID, pan0);
    v.class("real_threads");
    v
}

async fn run_async(c: &Case, real: bool) -> Verdict {
    let t_req = if real { Duration::from_millis(200) } else { T_REQ };
    let div: u64 = if real { 10 } else { 1 };
    // under the real clock only gross excess is decided (see run_case_threads)
    let hang = if real { Duration::from_secs(60) } else { Duration::ZERO };
    let mut v = Verdict::new();
    let n = (c.n as usize).clamp(2, 12);
    let hub = Hub::new(c.id_seed as u64 ^ 0x2020, c.jitter_ms as u64 / div);
    hub.set_yield_max(c.yields);
    let mut nodes = Vec::new();
    for i in 0..n {
        match add_node(&hub, tid_bytes(c.id_seed, i), node_addr(i), None, t_req, 8).await {
            Ok(x) => nodes.push(Arc::new(x)),
            Err(e) => {
                v.fail(format!("{ID}/harness/node-construction-failed"), e);
                return v;
            }
        }
    }
    for (a, b) in edges(n, &c.topo) {
        let _ = nodes[a].th.connect_peer(&nodes[b].addr.to_string()).await;
    }
    // one stub per node as the source of inbound requests
    let mut stubs = Vec::new();
    for i in 0..n {
        let sb = *blake3::hash(&[c.id_seed, i as u8, 0x2b]).as_bytes();
        let addr = node_addr(100 + i);
        let sid = add_stub(&hub, sb, addr, StubScript::default());
        let _ = nodes[i].th.connect_peer(&addr.to_string()).await;
        stubs.push(sid);
    }
    settle(50).await;
    let t0 = tokio::time::Instant::now();
    let b_op = t_req * (2 * 20 + 2);
    let stop = match c.stop_with_op {
        Some(k) if !c.ops.is_empty() => {
            let o = &c.ops[k as usize % c.ops.len()];
            Some((o.node, o.at_ms))
        }
        _ => c.stop,
    };
    let stop_node = stop.map(|(s, _)| s as usize % n);
    let stop_at = stop.map(|(_, at)| Duration::from_millis(at as u64 / div));
    // fault schedule
    for (i, at, m) in &c.silences {
        let hub = hub.clone();
        let tid = nodes[*i as usize % n].tid.clone();
        let at = Duration::from_millis(*at as u64 / div);
        let m = match *m {
            Mode::Slow(ms) => Mode::Slow(ms / div as u32),
            other => other,
        };
        tokio::spawn(async move {
            tokio::time::sleep(at).await;
            hub.set_mode(&tid, m);
        });
    }
    // operations
    let mut handles = Vec::new();
    let mut overlap_candidates: Vec<(Duration, usize)> = Vec::new();
    for (oi, op) in c.ops.iter().enumerate() {
        let i = op.node as usize % n;
        let at = Duration::from_millis(op.at_ms as u64 / div);
        // operations on the node that gets stopped are only started before the stop or at the same instant
        if Some(i) == stop_node && stop_at.map(|s| at > s).unwrap_or(false) {
            continue;
        }
        overlap_candidates.push((at, i));
        let node = nodes[i].clone();
        let hub2 = hub.clone();
        let stub = stubs[i].clone();
        let kind = op.kind.clone();
        let seed = c.id_seed;
        let cancel_after = op.cancel_after_ms.map(|ms| Duration::from_millis(ms as u64 / div));
        let other_addr = match &op.kind {
            Kind::Connect(j) => Some(nodes[*j as usize % n].addr),
            _ => None,
        };
        // a peer nobody has seen before, for this operation only
        let fresh_bytes = *blake3::hash(&[c.id_seed, oi as u8, 0x2f]).as_bytes();
        let fresh_addr = node_addr(200 + oi);
        handles.push((oi, i, at, tokio::spawn(async move {
            tokio::time::sleep(at).await;
            let started = tokio::time::Instant::now();
            let op = async {
                let what: &'static str = match kind {
                Kind::Lookup(k) => {
                    let _ = node.mgr.find_closest_nodes(&key_of(k, seed), 8).await;
                    "find_closest_nodes"
                }
                Kind::Put(k, len) => {
                    let _ = node.mgr.put(key_of(k, seed), vec![k; len as usize % 200]).await;
                    "put"
                }
                Kind::Get(k) => {
                    let _ = node.mgr.get(&key_of(k, seed)).await;
                    "get"
                }
                Kind::Ping(j) => {
                    let peers = node.mgr.get_connected_peers().await;
                    if !peers.is_empty() {
                        let p = peers[j as usize % peers.len()].peer_id.clone();
                        let _ = node.mgr.ping(&p).await;
                    }
                    "ping"
                }
                Kind::Connect(_) => {
                    if let Some(a) = other_addr {
                        let _ = node.th.connect_peer(&a.to_string()).await;
                    }
                    "connect"
                }
                Kind::ConnectFresh => {
                    add_stub(&hub2, fresh_bytes, fresh_addr, StubScript::default());
                    let _ = node.th.connect_peer(&fresh_addr.to_string()).await;
                    "connect"
                }
                Kind::InboundConnect => {
                    let sid = add_stub(&hub2, fresh_bytes, fresh_addr, StubScript::default());
                    node.th.verif_accept(&sid, &fresh_addr.to_string()).await;
                    "inbound_connect"
                }
                Kind::Inbound(which, k) => {
                    let payload = match which % 5 {
                        0 => DhtNetworkOperation::FindNode { key: key_of(k, seed) },
                        1 => DhtNetworkOperation::FindValue { key: key_of(k, seed) },
                        2 => DhtNetworkOperation::Put { key: key_of(k, seed), value: vec![k; 40] },
                        3 => DhtNetworkOperation::Ping,
                        _ => DhtNetworkOperation::Get { key: key_of(k, seed) },
                    };
                    let msg = DhtNetworkMessage { message_id: format!("in-{which}-{k}-{}", started.elapsed().as_nanos()), source: stub.clone(), target: Some(node.tid.clone()), message_type: DhtMessageType::Request, payload, result: None, timestamp: now_secs(), ttl: 10, hop_count: 0 };
                    let frame = wire::encode_wire_message("/dht/1.0.0", postcard::to_stdvec(&msg).unwrap_or_default(), &stub, now_secs());
                    hub2.inject(&stub, &node.tid, frame).await;
                    "inbound"
                }
            };
                what
            };
            let what: &'static str = match cancel_after {
                Some(ms) => match tokio::time::timeout(ms, op).await {
                    Ok(w) => w,
                    Err(_) => "cancelled_by_caller",
                },
                None => op.await,
            };
            (what, started.elapsed())
        })));
    }
    // stop
    let stop_handle = match (stop_node, stop_at) {
        (Some(s), Some(at)) => {
            let node = nodes[s].clone();
            Some(tokio::spawn(async move {
                tokio::time::sleep(at).await;
                let started = tokio::time::Instant::now();
                let r = node.mgr.stop().await;
                (r.is_ok(), started.elapsed(), tokio::time::Instant::now())
            }))
        }
        _ => None,
    };
    // collect
    let mut last_end = Duration::ZERO;
    let mut in_flight_at_stop = false;
    for (oi, i, at, h) in handles {
        match tokio::time::timeout(at + b_op + Duration::from_secs(1) + hang, h).await {
            Err(_) => {
                v.fail(format!("{ID}/operation/did-not-complete-within-bound"), format!("operation #{oi} ({:?}) on node {i} started at {at:?} had not resolved after {b_op:?} of virtual time", c.ops[oi].kind));
            }
            Ok(Err(e)) => {
                v.fail(format!("{ID}/operation/task-{}", if e.is_panic() { "panicked" } else { "cancelled" }), format!("operation #{oi}: {e}"));
            }
            Ok(Ok((what, took))) => {
                if took > b_op + hang {
                    v.fail(format!("{ID}/{what}/took-longer-than-bound"), format!("{took:?} > {b_op:?}"));
                }
                last_end = last_end.max(at + took);
                if let (Some(s), Some(sa)) = (stop_node, stop_at) {
                    if i == s && at <= sa && at + took > sa {
                        in_flight_at_stop = true;
                    }
                }
            }
        }
    }
    let mut stopped_info = None;
    if let (Some(h), Some(s)) = (stop_handle, stop_node) {
        let peers = nodes[s].mgr.get_connected_peers().await.len() as u32;
        let bound = t_req * (peers + 2);
        match tokio::time::timeout(stop_at.unwrap_or_default() + bound + Duration::from_secs(1) + hang, h).await {
            Err(_) => v.fail(format!("{ID}/stop/did-not-return-within-bound"), format!("stop() on node {s} with {peers} peers had not returned after {bound:?} of virtual time")),
            Ok(Err(e)) => v.fail(format!("{ID}/stop/task-{}", if e.is_panic() { "panicked" } else { "cancelled" }), e.to_string()),
            Ok(Ok((_ok, took, returned_at))) => {
                if took > bound + hang {
                    v.fail(format!("{ID}/stop/took-longer-than-bound"), format!("{took:?} > {bound:?} with {peers} peers"));
                }
                stopped_info = Some((s, returned_at));
            }
        }
    }
    // after stop returned and every operation resolved: silence for 10 T, and no answer to a new request
    if let Some((s, returned_at)) = stopped_info {
        let quiet_from = (returned_at - t0).max(last_end) + Duration::from_millis(1);
        let now = tokio::time::Instant::now() - t0;
        if quiet_from > now {
            tokio::time::sleep(quiet_from - now).await;
        }
        let mark = hub.t();
        tokio::time::sleep(t_req * 10).await;
        let msg = DhtNetworkMessage { message_id: "after-stop".into(), source: stubs[s].clone(), target: Some(nodes[s].tid.clone()), message_type: DhtMessageType::Request, payload: DhtNetworkOperation::Ping, result: None, timestamp: now_secs(), ttl: 10, hop_count: 0 };
        let frame = wire::encode_wire_message("/dht/1.0.0", postcard::to_stdvec(&msg).unwrap_or_default(), &stubs[s], now_secs());
        hub.inject(&stubs[s], &nodes[s].tid, frame).await;
        tokio::time::sleep(t_req * 2).await;
        for e in hub.trace() {
            match e {
                Ev::Frame { t, from, to, dht, .. } if from == nodes[s].tid && t > mark => {
                    let what = dht.as_ref().map(|d| format!("{} {}", d.op, if d.is_request { "request" } else { "response" })).unwrap_or_default();
                    let answered = dht.as_ref().map(|d| d.message_id == "after-stop").unwrap_or(false);
                    // real clock: a response to a request that arrived just before stop() may still be on its way
                    // out when the window opens; the property speaks of requests, so only those are decided there
                    if real && !answered && !dht.as_ref().map(|d| d.is_request).unwrap_or(false) {
                        continue;
                    }
                    v.fail(format!("{ID}/stop/{}", if answered { "request-answered-after-stop" } else { "frame-sent-after-stop" }), format!("node {s} sent '{what}' to {}… {:?} after stop() had returned and all its operations had resolved", &to[..8.min(to.len())], t - mark));
                    break;
                }
                Ev::Attempt { t, from, .. } if from == nodes[s].tid && t > mark => {
                    v.fail(format!("{ID}/stop/send-attempt-after-stop"), format!("node {s} attempted a send {:?} after stop() had returned", t - mark));
                    break;
                }
                _ => {}
            }
        }
        // "ends its background tasks": every task the manager started holds a reference to it; once stop() has
        // returned, every operation has resolved and 12 T have passed, only the harness's reference may remain
        let refs = Arc::strong_count(&nodes[s].mgr);
        v.check(refs == 1, &format!("{ID}/stop/background-task-still-holds-the-manager"), || format!("node {s}: {refs} references to the DhtNetworkManager remain after stop() (1 = the caller's)"));
        v.class("with_stop");
    }
    // non-trivial: ≥2 overlapping operations and (a silence or a stop during in-flight work)
    overlap_candidates.sort();
    let overlapping = overlap_candidates.len() >= 2;
    v.nt(overlapping && (!c.silences.is_empty() || in_flight_at_stop));
    if in_flight_at_stop {
        v.class("stop_with_operation_in_flight");
    }
    if c.ops.iter().any(|o| o.cancel_after_ms.is_some()) {
        v.class("with_operation_cancelled_by_its_caller");
    }
    if c.stop_with_op.is_some() {
        v.class("stop_at_the_instant_an_operation_starts");
    }
    if c.yields > 0 {
        v.class("seeded_yields");
    }
    if c.jitter_ms as u64 > 2000 {
        v.class("delays_beyond_timeout");
    }
    for nd in &nodes {
        let _ = tokio::time::timeout(Duration::from_secs(600), nd.mgr.stop()).await;
    }
    v
}

pub fn run(run: &Run) {
    run.assume("single-threaded runtime with a paused clock: time advances only when every task is idle, so delivery order and timeouts are a function of the seed and exceeding a virtual-time bound is a decided violation; OS-thread interleavings are not explored");
    run.assume("'sends no further requests after stop' is evaluated from the moment stop() has returned and every operation started before it has resolved");
    run.set_rule("scenario", "2..12 real nodes in a generated topology, request timeout T=2 s (virtual); 2..12 (thorough ..40) operations (lookup, put, get, ping, inbound request frames from stub peers, dials of known and never-seen peers, inbound connections of never-seen peers) at seeded offsets, a fifth of them dropped by their caller after a seeded delay, per-frame delays up to 1.5 T, seeded randomised yields (0..5 per send/dial) in two thirds of the cases, peers turned silent/dead at seeded instants, stop() of one node at a seeded instant or at the very instant one of its operations starts; non-trivial = ≥2 operations and (a silenced peer or stop() landing while an operation of that node is in flight)");
    run.max_shrink.store(120, std::sync::atomic::Ordering::Relaxed);
    let sh = shards_for(run.tier);
    let maxops = run.tier.pick(12usize, 40);
    let case = move || {
        let topo = prop_oneof![3 => Just(Topo::Mesh), 1 => Just(Topo::Ring), 1 => Just(Topo::Line), 1 => Just(Topo::Star), 1 => Just(Topo::Tree), 2 => (any::<u8>(), 30u8..200).prop_map(|(s, p)| Topo::Gnp(s, p))];
        let kind = prop_oneof![3 => any::<u8>().prop_map(Kind::Lookup), 3 => (any::<u8>(), any::<u8>()).prop_map(|(k, l)| Kind::Put(k, l)), 3 => any::<u8>().prop_map(Kind::Get), 1 => any::<u8>().prop_map(Kind::Ping), 2 => (0u8..5, any::<u8>()).prop_map(|(w, k)| Kind::Inbound(w, k)), 1 => any::<u8>().prop_map(Kind::Connect), 1 => Just(Kind::ConnectFresh), 1 => Just(Kind::InboundConnect)];
        let op = (any::<u8>(), 0u16..4000, kind, prop::option::weighted(0.2, prop_oneof![1u16..50, 50u16..1900, 1900u16..4500])).prop_map(|(node, at_ms, kind, cancel_after_ms)| OpSpec { node, at_ms, kind, cancel_after_ms });
        let silence = (any::<u8>(), 0u16..5000, prop_oneof![3 => Just(Mode::Silent), 1 => Just(Mode::Dead), 1 => (100u32..2500).prop_map(Mode::Slow)]);
        (2u8..=12, topo, any::<u8>(), prop_oneof![2 => Just(0u16), 2 => 1u16..1500, 1 => 1500u16..3000], prop::collection::vec(op, 2..=maxops), prop::collection::vec(silence, 0..4), prop::option::weighted(0.7, (any::<u8>(), 0u16..5000)), prop_oneof![1 => Just(0u8), 2 => 1u8..6], prop::option::weighted(0.3, any::<u8>()))
            .prop_map(|(n, topo, id_seed, jitter_ms, ops, silences, stop, yields, stop_with_op)| Case { n, topo, id_seed, jitter_ms, ops, silences, stop, yields, stop_with_op })
    };
    run.prop_f("scenario", run.tier.pick(4500, 50000), sh, case, run_case);
    // the same scenarios under real threads (sampled OS schedules); costs real seconds per case
    run.set_rule("threads", "the same scenario generator on a 4-worker multi-thread runtime and the real clock (T = 200 ms, offsets and delays ÷10): sampled OS-thread interleavings; decided only as a hang (> 60 s beyond the bound), frames after stop, task panics and leftover manager references");
    run.prop_f("threads", run.tier.pick(16, 800), sh, case, run_case_threads);
}

pub fn replay(run: &Run, sub: &str, case: &Value) -> Option<bool> {
    match sub {
        "scenario" => Some(run.eval_case("replay/scenario", &from_value::<Case>(case)?, &run_case)),
        "threads" => Some(run.eval_case("replay/threads", &from_value::<Case>(case)?, &run_case_threads)),
        _ => None,
    }
}
