//! C15 — close-group membership needs a Byzantine quorum; f liars cannot force it.
//! Oracle: necessary conditions of acceptance recomputed from the inputs, the
//! normal-mode iff, the 3f+1 family by construction, metamorphic flip
//! confirm→deny, and the "unanimous, spread, distinct latencies ⇒ accept" clause.
use crate::engine::*;
use proptest::prelude::*;
use saorsa_core::dht::routing_maintenance::close_group_validator::{
    CloseGroupEnforcementMode, CloseGroupFailure, CloseGroupResponse, CloseGroupValidator, CloseGroupValidatorConfig,
};
use saorsa_core::dht::routing_maintenance::MaintenanceConfig;
use saorsa_core::dht::DhtNodeId;
use serde::{Deserialize, Serialize};
use serde_json::Value;
use std::collections::HashSet;
use std::time::{Duration, Instant};

const ID: &str = "C15";
const TRUST: [Option<f64>; 5] = [None, Some(0.1), Some(0.29), Some(0.3), Some(0.9)];
const REGION: [Option<&str>; 5] = [None, Some("A"), Some("B"), Some("C"), Some("D")];
const CAND: [Option<f64>; 3] = [None, Some(0.1), Some(0.9)];

#[derive(Debug, Clone, Serialize, Deserialize, PartialEq, Eq, Hash, PartialOrd, Ord)]
pub struct W {
    confirms: bool,
    trust: u8,
    region: u8,
    lat_ms: u32,
}
#[derive(Debug, Clone, Serialize, Deserialize)]
pub struct Cfg {
    /// 0 = CloseGroupValidatorConfig::default(); f>0 = from_maintenance_config(bft_fault_tolerance = f)
    from_f: u8,
    /// override of min_peers_to_query (0 = keep)
    min_peers: u8,
    /// override of min_regions (0 = keep)
    min_regions: u8,
}
#[derive(Debug, Clone, Serialize, Deserialize)]
pub struct Case {
    bft: bool,
    log_only: bool,
    cand: u8,
    cfg: Cfg,
    ws: Vec<W>,
}

fn mk_cfg(c: &Case) -> CloseGroupValidatorConfig {
    let mut cfg = if c.cfg.from_f == 0 {
        CloseGroupValidatorConfig::default()
    } else {
        CloseGroupValidatorConfig::from_maintenance_config(&MaintenanceConfig { bft_fault_tolerance: c.cfg.from_f as usize, ..Default::default() })
    };
    if c.cfg.min_peers > 0 {
        cfg.min_peers_to_query = c.cfg.min_peers as usize;
    }
    if c.cfg.min_regions > 0 {
        cfg.min_regions = c.cfg.min_regions as usize;
    }
    if c.log_only {
        cfg = cfg.with_enforcement_mode(CloseGroupEnforcementMode::LogOnly);
    }
    cfg
}

fn responses(ws: &[W]) -> Vec<CloseGroupResponse> {
    let now = Instant::now();
    ws.iter()
        .enumerate()
        .map(|(i, w)| {
            let mut id = [0u8; 32];
            id[0] = i as u8;
            id[1] = (i >> 8) as u8;
            id[31] = 1;
            CloseGroupResponse {
                peer_id: DhtNodeId::from_bytes(id),
                confirms_membership: w.confirms,
                peer_trust_score: TRUST[w.trust as usize % 5],
                peer_region: REGION[w.region as usize % 5].map(String::from),
                response_latency: Duration::from_millis(w.lat_ms as u64),
                received_at: now,
            }
        })
        .collect()
}

struct Out {
    valid: bool,
    bft_used: bool,
    reasons: Vec<CloseGroupFailure>,
    strict_validate: Option<bool>,
}

fn eval(c: &Case, ws: &[W]) -> Out {
    let cfg = mk_cfg(c);
    let v = CloseGroupValidator::new(cfg);
    v.set_attack_mode(c.bft);
    let node = DhtNodeId::from_bytes([0xC1; 32]);
    let r = v.validate_membership(&node, &responses(ws), CAND[c.cand as usize % 3]);
    let valid = r.is_valid;
    let bft_used = r.used_bft_consensus;
    let reasons = r.failure_reasons.clone();
    let strict_validate = if !c.log_only {
        v.cache_result(r);
        Some(v.validate(&node))
    } else {
        None
    };
    Out { valid, bft_used, reasons, strict_validate }
}

fn check_case(c: &Case) -> Verdict {
    let mut v = Verdict::new();
    let cfg = mk_cfg(c);
    let out = eval(c, &c.ws);
    let cand = CAND[c.cand as usize % 3];
    let n = c.ws.len();
    let trusted: Vec<&W> = c.ws.iter().filter(|w| TRUST[w.trust as usize % 5].unwrap_or(0.0) >= cfg.min_witness_trust).collect();
    let t_conf = trusted.iter().filter(|w| w.confirms).count();
    let regions_all: HashSet<u8> = c.ws.iter().filter(|w| w.confirms && w.region % 5 != 0).map(|w| w.region % 5).collect();
    let cand_low = cand.map(|t| t < cfg.min_witness_trust).unwrap_or(false);
    let mode = if c.bft { "bft" } else { "normal" };

    if let Some(sv) = out.strict_validate {
        v.check(sv == out.valid, &format!("{ID}/validate/cached-verdict-differs-from-membership-verdict"), || format!("validate()={sv} is_valid={}", out.valid));
    }
    if out.valid && n >= cfg.min_peers_to_query && !cand_low {
        v.check(out.bft_used == c.bft, &format!("{ID}/validate_membership/mode-flag-wrong"), || format!("attack mode {} but used_bft_consensus={}", c.bft, out.bft_used));
    }

    if out.valid {
        // necessary conditions common to both modes
        v.check(n >= cfg.min_peers_to_query, &format!("{ID}/validate_membership/{mode}-accept-with-too-few-responses"), || format!("{n} responses < {}", cfg.min_peers_to_query));
        v.check(!cand_low, &format!("{ID}/validate_membership/{mode}-accept-with-low-candidate-trust"), || format!("candidate trust {cand:?}"));
    }
    if c.bft {
        if out.valid {
            v.check(trusted.len() >= cfg.min_peers_to_query, &format!("{ID}/validate_bft/accept-with-too-few-trusted-witnesses"), || format!("{} trusted < {}", trusted.len(), cfg.min_peers_to_query));
            let ratio = if trusted.is_empty() { 0.0 } else { t_conf as f64 / trusted.len() as f64 };
            v.check(ratio >= cfg.bft_threshold - 1e-12, &format!("{ID}/validate_bft/accept-below-confirmation-threshold"), || format!("{t_conf}/{} = {ratio} < {}", trusted.len(), cfg.bft_threshold));
            v.check(regions_all.len() >= cfg.min_regions, &format!("{ID}/validate_membership/bft-accept-with-too-few-regions"), || format!("{} regions < {}", regions_all.len(), cfg.min_regions));
            v.check(!out.reasons.contains(&CloseGroupFailure::SuspectedCollusion), &format!("{ID}/validate_bft/accept-despite-collusion-flag"), || "SuspectedCollusion listed on a valid result".into());
            // documented heuristic, clear-cut instance: ≥3 trusted witnesses all with one identical latency
            if trusted.len() >= 3 {
                let l0 = trusted[0].lat_ms;
                v.check(!trusted.iter().all(|w| w.lat_ms == l0), &format!("{ID}/validate_bft/accept-with-identical-response-times"), || format!("{} trusted witnesses all answered in {l0} ms", trusted.len()));
            }
        }
    } else {
        // normal mode: iff
        let mut total = 0.0;
        let mut conf = 0.0;
        for w in &c.ws {
            let t = TRUST[w.trust as usize % 5].unwrap_or(0.5);
            total += t;
            if w.confirms {
                conf += t;
            }
        }
        let ratio = if total > 0.0 { conf / total } else { 0.0 };
        let enough = n >= cfg.min_peers_to_query && !cand_low;
        if (ratio - cfg.trust_weighted_threshold).abs() > 1e-9 {
            let want = enough && ratio >= cfg.trust_weighted_threshold;
            v.check(out.valid == want, &format!("{ID}/validate_trust_weighted/verdict-differs-from-weighted-share-rule"), || {
                format!("weighted share {ratio:.6} threshold {} responses {n}/{} candidate {cand:?} → is_valid={} expected {want}", cfg.trust_weighted_threshold, cfg.min_peers_to_query, out.valid)
            });
        }
    }

    // metamorphic: flipping one confirm to deny never turns reject into accept;
    // and (for the non-trivial rule) does any single flip change the verdict?
    let mut boundary = false;
    for i in 0..n {
        let mut ws = c.ws.clone();
        ws[i].confirms = !ws[i].confirms;
        let o2 = eval(c, &ws);
        if o2.valid != out.valid {
            boundary = true;
        }
        if c.ws[i].confirms {
            // ws = original with one confirmation turned into a denial
            v.check(!(o2.valid && !out.valid), &format!("{ID}/validate_membership/{mode}-denial-turns-reject-into-accept"), || format!("flipping witness {i} to deny made the claim accepted"));
        } else {
            v.check(!(out.valid && !o2.valid), &format!("{ID}/validate_membership/{mode}-denial-turns-reject-into-accept"), || format!("original has witness {i} denying and is accepted; with it confirming it is rejected"));
        }
    }

    // liveness clause: unanimous, enough trusted, ≥ min_regions regions (≥3), latencies pairwise ≥10 ms apart, candidate trusted ⇒ accept
    let all_conf = n > 0 && c.ws.iter().all(|w| w.confirms);
    let all_trusted = trusted.len() == n;
    let mut lats: Vec<u32> = c.ws.iter().map(|w| w.lat_ms).collect();
    lats.sort();
    let apart = lats.windows(2).all(|p| p[1] - p[0] >= 10);
    let cand_ok = matches!(cand, Some(t) if t >= 0.3);
    if all_conf && all_trusted && n >= cfg.min_peers_to_query && regions_all.len() >= cfg.min_regions.max(3) && apart && cand_ok {
        v.check(out.valid, &format!("{ID}/validate_membership/{mode}-unanimous-spread-confirmation-rejected"), || format!("reasons {:?}", out.reasons));
        v.class("unanimous_spread");
    } else if all_conf && all_trusted && n >= cfg.min_peers_to_query && regions_all.len() >= cfg.min_regions.max(3) && cand_ok && lats.windows(2).all(|p| p[1] != p[0]) {
        v.class("unanimous_distinct_but_close_latencies(reported,not asserted)");
    }

    v.nt(boundary);
    v.class(format!("{mode}_{}", if out.valid { "accept" } else { "reject" }));
    v
}

// ----- 3f+1 family by construction -----------------------------------------
#[derive(Debug, Clone, Serialize, Deserialize)]
pub struct Quorum {
    f: u8,
    cfg_from_f: bool,
    log_only: bool,
    cand: u8,
    honest: Vec<(u8, u8, u32)>,     // (trust idx in {3,4}, region, lat) — deny
    liars: Vec<(bool, u8, u8, u32)>, // (confirms, trust idx in {3,4}, region, lat)
    extras: Vec<(bool, u8, u8, u32)>, // untrusted: trust idx in {0,1,2}
    order: Vec<u16>,
}

fn check_quorum(q: &Quorum) -> Verdict {
    let mut v = Verdict::new();
    let mut ws: Vec<W> = Vec::new();
    for (t, r, l) in &q.honest {
        ws.push(W { confirms: false, trust: 3 + (*t % 2), region: *r % 5, lat_ms: *l });
    }
    for (c, t, r, l) in &q.liars {
        ws.push(W { confirms: *c, trust: 3 + (*t % 2), region: *r % 5, lat_ms: *l });
    }
    for (c, t, r, l) in &q.extras {
        ws.push(W { confirms: *c, trust: *t % 3, region: *r % 5, lat_ms: *l });
    }
    // seeded permutation (order must not matter)
    let mut out: Vec<W> = Vec::new();
    for (i, w) in ws.into_iter().enumerate() {
        let pos = idx(*q.order.get(i).unwrap_or(&0), out.len() + 1);
        out.insert(pos, w);
    }
    let case = Case { bft: true, log_only: q.log_only, cand: q.cand, cfg: Cfg { from_f: if q.cfg_from_f { q.f } else { 0 }, min_peers: 0, min_regions: 0 }, ws: out };
    let o = eval(&case, &case.ws);
    v.check(!o.valid, &format!("{ID}/validate_bft/f-liars-forced-acceptance-against-2f+1-denials"), || format!("f={} witnesses={:?}", q.f, case.ws));
    let liars_confirm = q.liars.iter().filter(|l| l.0).count();
    v.nt(liars_confirm >= 1);
    v.class(format!("f{}", q.f));
    if !q.extras.is_empty() {
        v.class("with_untrusted_extras");
    }
    v
}

fn quorum_strategy(max_f: u8) -> impl Strategy<Value = Quorum> {
    (1..=max_f, any::<bool>(), any::<bool>(), 0u8..3).prop_flat_map(|(f, cfg_from_f, log_only, cand)| {
        let lat = prop_oneof![Just(100u32), 0u32..400, (0u32..30).prop_map(|i| 100 + 15 * i)];
        let honest = prop::collection::vec((0u8..2, 0u8..5, lat.clone()), (2 * f + 1) as usize);
        let liars = prop::collection::vec((prop::bool::weighted(0.85), 0u8..2, 0u8..5, lat.clone()), f as usize);
        let extras = prop::collection::vec((prop::bool::weighted(0.9), 0u8..3, 0u8..5, lat), 0..12);
        let order = prop::collection::vec(any::<u16>(), (3 * f + 1 + 12) as usize);
        (honest, liars, extras, order).prop_map(move |(honest, liars, extras, order)| Quorum { f, cfg_from_f, log_only, cand, honest, liars, extras, order })
    })
}

fn witness() -> impl Strategy<Value = W> {
    let lat = prop_oneof![3 => Just(100u32), 2 => (0u32..12).prop_map(|i| 100 + 3 * i), 4 => (0u32..40).prop_map(|i| 100 + 15 * i), 1 => 0u32..1000];
    (prop::bool::weighted(0.75), 0u8..5, 0u8..5, lat).prop_map(|(confirms, trust, region, lat_ms)| W { confirms, trust, region, lat_ms })
}
/// witnesses biased to the accepting region: trusted, confirming, spread latencies
fn good_witness() -> impl Strategy<Value = W> {
    ((prop::bool::weighted(0.9)), prop_oneof![4 => 3u8..5, 1 => 0u8..5], 1u8..5, (0u32..40)).prop_map(|(confirms, trust, region, i)| W { confirms, trust, region, lat_ms: 100 + 15 * i })
}
fn cfg_strategy() -> impl Strategy<Value = Cfg> {
    prop_oneof![
        4 => Just(Cfg { from_f: 0, min_peers: 0, min_regions: 0 }),
        2 => (1u8..4).prop_map(|f| Cfg { from_f: f, min_peers: 0, min_regions: 0 }),
        2 => (1u8..8, 0u8..5).prop_map(|(p, r)| Cfg { from_f: 0, min_peers: p, min_regions: r }),
    ]
}
fn case_strategy(max: usize) -> impl Strategy<Value = Case> {
    let ws = prop_oneof![
        2 => prop::collection::vec(witness(), 0..=max),
        3 => prop::collection::vec(good_witness(), 4..=max.max(5)),
        1 => (prop::collection::vec(good_witness(), 4..=max.max(5)), prop::collection::vec(witness(), 0..4)).prop_map(|(mut a, b)| { a.extend(b); a }),
    ];
    (any::<bool>(), any::<bool>(), 0u8..3, cfg_strategy(), ws).prop_map(|(bft, log_only, cand, cfg, ws)| Case { bft, log_only, cand, cfg, ws })
}

/// Exhaustive enumeration of witness multisets of size 0..=max over confirms×trust×region,
/// crossed with 3 latency schemes, both modes, both enforcement modes folded into cand loop.
fn enumerate(run: &Run, max: usize, cfgs: &[Cfg]) {
    let mut types: Vec<(bool, u8, u8)> = Vec::new();
    for c in [true, false] {
        for t in 0..5u8 {
            for r in 0..5u8 {
                types.push((c, t, r));
            }
        }
    }
    // all multisets as non-decreasing index vectors
    let mut sets: Vec<Vec<usize>> = vec![vec![]];
    let mut frontier: Vec<Vec<usize>> = vec![vec![]];
    for _ in 0..max {
        let mut next = Vec::new();
        for s in &frontier {
            let lo = s.last().copied().unwrap_or(0);
            for t in lo..types.len() {
                let mut s2 = s.clone();
                s2.push(t);
                next.push(s2);
            }
        }
        sets.extend(next.iter().cloned());
        frontier = next;
    }
    let nthreads = shards_for(run.tier) as usize;
    let chunks: Vec<&[Vec<usize>]> = sets.chunks(sets.len().div_ceil(nthreads)).collect();
    std::thread::scope(|sc| {
        for ch in chunks {
            let types = &types;
            sc.spawn(move || {
                for s in ch {
                    for scheme in 0..3u32 {
                        let ws: Vec<W> = s
                            .iter()
                            .enumerate()
                            .map(|(i, t)| {
                                let (c, tr, r) = types[*t];
                                let lat = match scheme {
                                    0 => 100,
                                    1 => 100 + 3 * i as u32,
                                    _ => 100 + 15 * i as u32,
                                };
                                W { confirms: c, trust: tr, region: r, lat_ms: lat }
                            })
                            .collect();
                        for bft in [false, true] {
                            for cand in 0..3u8 {
                                for cfg in cfgs {
                                    let case = Case { bft, log_only: (cand + scheme as u8) % 2 == 1, cand, cfg: cfg.clone(), ws: ws.clone() };
                                    run.eval_case("enumerated", &case, &check_case);
                                }
                            }
                        }
                    }
                }
            });
        }
    });
    run.set_exhaustive("enumerated");
}

pub fn run(run: &Run) {
    run.assume("the collusion heuristic is asserted only in its clear-cut instance (all trusted witnesses report one identical latency); 'distinct' latencies are read as pairwise ≥10 ms apart, closer-but-distinct ones are classified and reported only");
    run.assume("confirming regions are counted over all confirming responses, as the code does (the weaker reading)");
    let msize = run.tier.pick(3, 4);
    run.set_rule(
        "enumerated",
        &format!("exhaustive: every witness multiset of size 0..={msize} over confirms×trust{{none,.1,.29,.3,.9}}×region{{none,A..D}} × 3 latency schemes × 2 modes × 3 candidate trusts × configs (min_peers lowered so small sets can be accepted); non-trivial = verdict changes when one witness's answer is flipped; distinct by case hash"),
    );
    run.set_rule("random", "random witness sets of size 0..=10 (thorough: ..=40), default / maintenance-derived / random configs; non-trivial = on a decision boundary (one flipped answer changes the verdict)");
    run.set_rule("quorum", "3f+1 trusted witnesses by construction: 2f+1 deny, f arbitrary, 0..12 untrusted extras, shuffled; non-trivial = ≥1 liar confirms");
    let cfgs = vec![Cfg { from_f: 0, min_peers: 2, min_regions: 2 }, Cfg { from_f: 0, min_peers: 3, min_regions: 0 }];
    enumerate(run, msize, &cfgs);
    let sh = shards_for(run.tier);
    run.prop("random", run.tier.pick(400000, 4800000), sh, case_strategy(10), check_case);
    if run.tier == Tier::Thorough {
        run.prop("random", 60_000, sh, case_strategy(40), check_case);
    }
    run.prop("quorum", run.tier.pick(200000, 2400000), sh, quorum_strategy(run.tier.pick(3, 6)), check_quorum);
}

pub fn replay(run: &Run, sub: &str, case: &Value) -> Option<bool> {
    match sub {
        "enumerated" | "random" => Some(run.eval_case("replay/random", &from_value::<Case>(case)?, &check_case)),
        "quorum" => Some(run.eval_case("replay/quorum", &from_value::<Quorum>(case)?, &check_quorum)),
        _ => None,
    }
}
