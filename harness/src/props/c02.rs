//! C02 — routing-table closest-node answers are exact, duplicate-free and capped.
//! (a) core engine vs reference model (set + sort). (b) manager replies: see memnet part (c02b).
use crate::engine::*;
use proptest::prelude::*;
use saorsa_core::dht::core_engine::{DhtCoreEngine, DhtKey, DhtRequestWrapper, NodeCapacity, NodeId, NodeInfo};
use saorsa_core::dht::network_integration::{DhtMessage, DhtResponse};
use saorsa_core::dht::routing_maintenance::EvictionReason;
use serde::{Deserialize, Serialize};
use serde_json::Value;
use std::collections::{BTreeSet, HashSet};
use std::time::SystemTime;

const ID: &str = "C02";

/// An id described by the bucket it falls in relative to the local id plus a suffix seed.
#[derive(Debug, Clone, Serialize, Deserialize, PartialEq, Eq, Hash)]
pub enum IdPick {
    /// (bucket index 0..=255, suffix seed)
    Bucket(u8, u8),
    /// the local id itself
    Local,
    /// the same id as the i-th earlier pick (mapped monotonically)
    Earlier(u16),
}
#[derive(Debug, Clone, Serialize, Deserialize)]
pub enum Op {
    Join(Vec<IdPick>),
    Add(IdPick),
    Fail(IdPick),
    Evict(IdPick),
}
#[derive(Debug, Clone, Serialize, Deserialize)]
pub enum Query {
    Find(IdPick, u8),
    FindNodeReq(IdPick, CountPick),
    FindValueReq(IdPick),
}
#[derive(Debug, Clone, Serialize, Deserialize)]
pub enum CountPick {
    N(u8),
    Max,
    Big(u32),
}
#[derive(Debug, Clone, Serialize, Deserialize)]
pub struct Case {
    local_seed: u8,
    ops: Vec<Op>,
    queries: Vec<Query>,
}

pub fn local_id(seed: u8) -> [u8; 32] {
    if seed == 0 {
        [0u8; 32]
    } else {
        *blake3::hash(&[seed, 0x02]).as_bytes()
    }
}

/// id that differs from `local` first at bit `bucket` (so it lands in that bucket), rest from the seed
pub fn id_in_bucket(local: &[u8; 32], bucket: u8, seed: u8) -> [u8; 32] {
    let mut b = *blake3::hash(&[bucket, seed, 0xc2]).as_bytes();
    let bucket = bucket as usize;
    for bit in 0..bucket {
        let (byte, mask) = (bit / 8, 0x80u8 >> (bit % 8));
        b[byte] = (b[byte] & !mask) | (local[byte] & mask);
    }
    let (byte, mask) = (bucket / 8, 0x80u8 >> (bucket % 8));
    b[byte] = (b[byte] & !mask) | (!local[byte] & mask);
    b
}

struct Resolver {
    local: [u8; 32],
    history: Vec<[u8; 32]>,
}
impl Resolver {
    fn get(&mut self, p: &IdPick) -> [u8; 32] {
        let id = match p {
            IdPick::Bucket(b, s) => id_in_bucket(&self.local, *b, *s),
            IdPick::Local => self.local,
            IdPick::Earlier(i) => {
                if self.history.is_empty() {
                    id_in_bucket(&self.local, 0, 0)
                } else {
                    self.history[idx(*i, self.history.len())]
                }
            }
        };
        self.history.push(id);
        id
    }
}

fn info(id: [u8; 32], n: usize) -> NodeInfo {
    // distinct /16 per node so that admission gates do not distort the table
    NodeInfo { id: NodeId::from_bytes(id), address: format!("{}.{}.{}.9:9000", 11 + (n % 200), 1 + (n / 200) % 250, n % 5), last_seen: SystemTime::now(), capacity: NodeCapacity::default() }
}
fn xor(a: &[u8; 32], b: &[u8; 32]) -> [u8; 32] {
    let mut r = [0u8; 32];
    for i in 0..32 {
        r[i] = a[i] ^ b[i];
    }
    r
}

async fn table(eng: &DhtCoreEngine) -> Vec<[u8; 32]> {
    eng.verif_routing_ids().await.iter().map(|n| *n.as_bytes()).collect()
}

fn check_table(v: &mut Verdict, ids: &[[u8; 32]], local: &[u8; 32], site: &str) -> BTreeSet<[u8; 32]> {
    let set: BTreeSet<[u8; 32]> = ids.iter().cloned().collect();
    if set.len() != ids.len() {
        v.fail(format!("{ID}/{site}/table-lists-a-peer-twice"), format!("{} entries, {} distinct", ids.len(), set.len()));
    }
    if set.contains(local) {
        v.fail(format!("{ID}/{site}/table-lists-the-local-node"), "local id is in its own routing table".to_string());
    }
    set
}

fn expect(m: &BTreeSet<[u8; 32]>, key: &[u8; 32], n: usize) -> Vec<[u8; 32]> {
    let mut all: Vec<[u8; 32]> = m.iter().cloned().collect();
    all.sort_by_key(|i| xor(i, key));
    all.truncate(n);
    all
}

fn compare(v: &mut Verdict, got: &[NodeInfo], want: &[[u8; 32]], site: &str, key: &[u8; 32], n: usize, m: usize) {
    let g: Vec<[u8; 32]> = got.iter().map(|x| *x.id.as_bytes()).collect();
    if g == want {
        return;
    }
    let gs: HashSet<&[u8; 32]> = g.iter().collect();
    let class = if gs.len() != g.len() {
        "answer-repeats-a-peer"
    } else if g.len() != want.len() {
        "answer-has-wrong-size"
    } else if gs == want.iter().collect::<HashSet<_>>() {
        "answer-not-in-ascending-distance-order"
    } else {
        "answer-is-not-the-closest-set"
    };
    let show = |l: &[[u8; 32]]| l.iter().map(|i| hex::encode(&xor(i, key)[..3])).collect::<Vec<_>>();
    v.fail(format!("{ID}/{site}/{class}"), format!("n={n} table={m}: got distances {:?} want {:?}", show(&g), show(want)));
}

fn run_case(c: &Case) -> Verdict {
    let rt = paused_rt();
    rt.block_on(async {
        let mut v = Verdict::new();
        let local = local_id(c.local_seed);
        let mut eng = DhtCoreEngine::verif_new_log_only(NodeId::from_bytes(local)).expect("engine");
        let mut r = Resolver { local, history: Vec::new() };
        let mut m: BTreeSet<[u8; 32]> = BTreeSet::new();
        let mut n_info = 0usize;
        let mut repeated_or_self = false;
        for (step, op) in c.ops.iter().enumerate() {
            match op {
                Op::Join(picks) => {
                    let ids: Vec<[u8; 32]> = picks.iter().map(|p| r.get(p)).collect();
                    let infos: Vec<NodeInfo> = ids.iter().map(|i| { n_info += 1; info(*i, n_info) }).collect();
                    if ids.iter().any(|i| *i == local || m.contains(i)) {
                        repeated_or_self = true;
                    }
                    let res = eng.join_network(infos).await;
                    let after = check_table(&mut v, &table(&eng).await, &local, "join_network");
                    let offered: BTreeSet<[u8; 32]> = ids.iter().cloned().collect();
                    if !(m.is_subset(&after)) {
                        v.fail(format!("{ID}/join_network/existing-entry-lost"), format!("step {step}"));
                    }
                    if !after.iter().all(|i| m.contains(i) || offered.contains(i)) {
                        v.fail(format!("{ID}/join_network/unknown-entry-appeared"), format!("step {step}"));
                    }
                    if res.is_ok() {
                        for i in &offered {
                            if *i != local && !after.contains(i) {
                                v.fail(format!("{ID}/join_network/acknowledged-node-not-in-table"), format!("step {step}: {}", hex::encode(&i[..4])));
                            }
                        }
                    }
                    m = after;
                    m.remove(&local);
                }
                Op::Add(p) => {
                    let id = r.get(p);
                    if id == local || m.contains(&id) {
                        repeated_or_self = true;
                    }
                    n_info += 1;
                    let res = eng.add_node(info(id, n_info)).await;
                    let after = check_table(&mut v, &table(&eng).await, &local, "add_node");
                    // re-adding a listed peer under new contact details may be refused by the admission gates; the
                    // peer itself may then be gone (its old slots were given back) - every *other* entry must survive
                    let lost: Vec<&[u8; 32]> = m.iter().filter(|i| !after.contains(*i)).collect();
                    if lost.iter().any(|i| **i != id) || (!lost.is_empty() && res.is_ok()) {
                        v.fail(format!("{ID}/add_node/existing-entry-lost"), format!("step {step}"));
                    }
                    if !after.iter().all(|i| m.contains(i) || *i == id) {
                        v.fail(format!("{ID}/add_node/unknown-entry-appeared"), format!("step {step}"));
                    }
                    if res.is_ok() && id != local && !after.contains(&id) {
                        v.fail(format!("{ID}/add_node/acknowledged-node-not-in-table"), format!("step {step}"));
                    }
                    m = after;
                    m.remove(&local);
                }
                Op::Fail(p) => {
                    let id = r.get(p);
                    let _ = eng.handle_node_failure(NodeId::from_bytes(id)).await;
                    m.remove(&id);
                    let after = check_table(&mut v, &table(&eng).await, &local, "handle_node_failure");
                    let mut want = m.clone();
                    want.remove(&local);
                    let mut a2 = after.clone();
                    a2.remove(&local);
                    if a2 != want {
                        v.fail(format!("{ID}/handle_node_failure/table-differs-from-model-after-removal"), format!("step {step}: {} vs {}", after.len(), want.len()));
                    }
                }
                Op::Evict(p) => {
                    let id = r.get(p);
                    let _ = eng.evict_node(&NodeId::from_bytes(id), EvictionReason::Stale).await;
                    m.remove(&id);
                    let after = check_table(&mut v, &table(&eng).await, &local, "evict_node");
                    let mut a2 = after.clone();
                    a2.remove(&local);
                    if a2 != m {
                        v.fail(format!("{ID}/evict_node/table-differs-from-model-after-removal"), format!("step {step}: {} vs {}", after.len(), m.len()));
                    }
                }
            }
            if !v.ok() {
                break;
            }
        }
        // queries
        let mut interesting_query = false;
        let mut bucket_pop: std::collections::HashMap<usize, usize> = std::collections::HashMap::new();
        for i in &m {
            let d = xor(i, &local);
            let b = d.iter().position(|x| *x != 0).map(|p| p * 8 + d[p].leading_zeros() as usize).unwrap_or(255);
            *bucket_pop.entry(b).or_insert(0) += 1;
        }
        let most = bucket_pop.iter().max_by_key(|(_, n)| **n).map(|(b, _)| *b);
        if v.ok() {
            for q in &c.queries {
                let (kp, site) = match q {
                    Query::Find(k, _) => (k, "find_nodes"),
                    Query::FindNodeReq(k, _) => (k, "handle_request(FindNode)"),
                    Query::FindValueReq(k) => (k, "handle_request(FindValue)"),
                };
                // keys are drawn the same way as ids but never recorded as "earlier" ids
                let key = match kp {
                    IdPick::Bucket(b, s) => id_in_bucket(&local, *b, s.wrapping_add(101)),
                    IdPick::Local => local,
                    IdPick::Earlier(i) => {
                        if r.history.is_empty() {
                            local
                        } else {
                            r.history[idx(*i, r.history.len())]
                        }
                    }
                };
                let kd = xor(&key, &local);
                let kb = kd.iter().position(|x| *x != 0).map(|p| p * 8 + kd[p].leading_zeros() as usize).unwrap_or(255);
                if bucket_pop.len() >= 2 && Some(kb) != most {
                    interesting_query = true;
                }
                match q {
                    Query::Find(_, n) => {
                        let n = *n as usize;
                        let got = eng.find_nodes(&DhtKey::from_bytes(key), n).await.unwrap_or_default();
                        compare(&mut v, &got, &expect(&m, &key, n), site, &key, n, m.len());
                    }
                    Query::FindNodeReq(_, cp) => {
                        let count = match cp {
                            CountPick::N(n) => *n as usize,
                            CountPick::Max => usize::MAX,
                            CountPick::Big(x) => *x as usize,
                        };
                        let resp = eng.handle_request(DhtRequestWrapper { id: "q".into(), message: DhtMessage::FindNode { target: DhtKey::from_bytes(key), count } }).await;
                        match resp.response {
                            DhtResponse::FindNodeReply { nodes, .. } => {
                                if nodes.len() > 20 {
                                    v.fail(format!("{ID}/{site}/reply-exceeds-protocol-cap"), format!("count={count} → {} nodes", nodes.len()));
                                }
                                compare(&mut v, &nodes, &expect(&m, &key, count.min(20)), site, &key, count.min(20), m.len());
                            }
                            other => v.fail(format!("{ID}/{site}/unexpected-reply-kind"), format!("{other:?}")),
                        }
                    }
                    Query::FindValueReq(_) => {
                        let resp = eng.handle_request(DhtRequestWrapper { id: "q".into(), message: DhtMessage::FindValue { key: DhtKey::from_bytes(key) } }).await;
                        match resp.response {
                            DhtResponse::FindValueReply { value: None, nodes } => {
                                if nodes.len() > 8 {
                                    v.fail(format!("{ID}/{site}/reply-exceeds-protocol-cap"), format!("{} nodes", nodes.len()));
                                }
                                compare(&mut v, &nodes, &expect(&m, &key, 8), site, &key, 8, m.len());
                            }
                            other => v.fail(format!("{ID}/{site}/unexpected-reply-kind"), format!("{other:?}")),
                        }
                    }
                }
                if !v.ok() {
                    break;
                }
            }
        }
        v.nt((bucket_pop.len() >= 2 && interesting_query) || repeated_or_self);
        if repeated_or_self {
            v.class("repeated_or_self_id");
        }
        if bucket_pop.values().any(|n| *n >= 8) {
            v.class("full_bucket");
        }
        v.class(format!("buckets_{}", bucket_pop.len().min(6)));
        v.count("table_size", m.len() as u64);
        v
    })
}

fn id_pick() -> impl Strategy<Value = IdPick> {
    let bucket = prop_oneof![5 => 0u8..=4, 2 => 250u8..=255, 2 => 5u8..=40, 1 => any::<u8>()];
    prop_oneof![
        12 => (bucket, any::<u8>()).prop_map(|(b, s)| IdPick::Bucket(b, s)),
        1 => Just(IdPick::Local),
        3 => any::<u16>().prop_map(IdPick::Earlier),
    ]
}

pub fn case(max_ops: usize) -> impl Strategy<Value = Case> {
    let op = prop_oneof![
        3 => prop::collection::vec(id_pick(), 1..6).prop_map(Op::Join),
        6 => id_pick().prop_map(Op::Add),
        1 => id_pick().prop_map(Op::Fail),
        1 => id_pick().prop_map(Op::Evict),
    ];
    let count = prop_oneof![4 => (0u8..=64).prop_map(CountPick::N), 1 => Just(CountPick::Max), 1 => any::<u32>().prop_map(CountPick::Big)];
    let q = prop_oneof![
        4 => (id_pick(), 0u8..=64).prop_map(|(k, n)| Query::Find(k, n)),
        2 => (id_pick(), count).prop_map(|(k, c)| Query::FindNodeReq(k, c)),
        1 => id_pick().prop_map(Query::FindValueReq),
    ];
    (prop_oneof![1 => Just(0u8), 3 => any::<u8>()], prop::collection::vec(op, 0..max_ops), prop::collection::vec(q, 1..8)).prop_map(|(local_seed, ops, queries)| Case { local_seed, ops, queries })
}

pub fn run(run: &Run) {
    run.assume("membership after an add is read back from the table (bucket-full and gate refusals are the implementation's), then constrained: nothing lost, nothing foreign, acknowledged ids present, no duplicate, never the local id");
    run.set_rule("engine", "history of join_network/add_node/handle_node_failure/evict_node over ids drawn by bucket (0–4, 250–255, mid, any; the local id; repeats of earlier ids), then find_nodes / FindNode / FindValue queries with counts 0..=64, usize::MAX; non-trivial = ≥2 populated buckets and a query whose bucket is not the most populated one, or a repeated/self id in the history");
    let sh = shards_for(run.tier);
    run.prop("engine", run.tier.pick(3000, 60_000), sh, case(40), run_case);
    run.prop("engine", run.tier.pick(150, 4000), sh, case(300), run_case);
}

pub fn replay(run: &Run, sub: &str, case: &Value) -> Option<bool> {
    match sub {
        "engine" => Some(run.eval_case("replay/engine", &from_value::<Case>(case)?, &run_case)),
        _ => None,
    }
}
