//! C02 — routing-table closest-node answers are exact, duplicate-free and capped.
//! (a) core engine vs reference model (set + sort). (b) manager replies: see memnet part (c02b).
use crate::engine::*;
use proptest::prelude::*;
use saorsa_core::dht::core_engine::{DhtCoreEngine, DhtKey, DhtRequestWrapper, NodeCapacity, NodeId, NodeInfo};
use saorsa_core::dht::network_integration::{DhtMessage, DhtResponse};
use saorsa_core::dht::routing_maintenance::EvictionReason;
use serde::{Deserialize, Serialize};
use serde_json::Value;
use std::collections::{BTreeSet, HashSet};
use std::time::SystemTime;

const ID: &str = "C02";

/// An id described by the bucket it falls in relative to the local id plus a suffix seed.
#[derive(Debug, Clone, Serialize, Deserialize, PartialEq, Eq, Hash)]
pub enum IdPick {
    /// (bucket index 0..=255, suffix seed)
    Bucket(u8, u8),
    /// the local id itself
    Local,
    /// the same id as the i-th earlier pick (mapped monotonically)
    Earlier(u16),
}
#[derive(Debug, Clone, Serialize, Deserialize)]
pub enum Op {
    Join(Vec<IdPick>),
    Add(IdPick),
    Fail(IdPick),
    Evict(IdPick),
}
#[derive(Debug, Clone, Serialize, Deserialize)]
pub enum Query {
    Find(IdPick, u8),
    FindNodeReq(IdPick, CountPick),
    FindValueReq(IdPick),
}
#[derive(Debug, Clone, Serialize, Deserialize)]
pub enum CountPick {
    N(u8),
    Max,
    Big(u32),
}
#[derive(Debug, Clone, Serialize, Deserialize)]
pub struct Case {
    local_seed: u8,
    ops: Vec<Op>,
    queries: Vec<Query>,
}

pub fn local_id(seed: u8) -> [u8; 32] {
    if seed == 0 {
        [0u8; 32]
    } else {
        *blake3::hash(&[seed, 0x02]).as_bytes()
    }
}

/// id that differs from `local` first at bit `bucket` (so it lands in that bucket), rest from the seed
pub fn id_in_bucket(local: &[u8; 32], bucket: u8, seed: u8) -> [u8; 32] {
    let mut b = *blake3::hash(&[bucket, seed, 0xc2]).as_bytes();
    let bucket = bucket as usize;
    for bit in 0..bucket {
        let (byte, mask) = (bit / 8, 0x80u8 >> (bit % 8));
        b[byte] = (b[byte] & !mask) | (local[byte] & mask);
    }
    let (byte, mask) = (bucket / 8, 0x80u8 >> (bucket % 8));
    b[byte] = (b[byte] & !mask) | (!local[byte] & mask);
    b
}

struct Resolver {
    local: [u8; 32],
    history: Vec<[u8; 32]>,
}
impl Resolver {
    fn get(&mut self, p: &IdPick) -> [u8; 32] {
        let id = match p {
            IdPick::Bucket(b, s) => id_in_bucket(&self.local, *b, *s),
            IdPick::Local => self.local,
            IdPick::Earlier(i) => {
                if self.history.is_empty() {
                    id_in_bucket(&self.local, 0, 0)
                } else {
                    self.history[idx(*i, self.history.len())]
                }
            }
        };
        self.history.push(id);
        id
    }
}

fn info(id: [u8; 32], n: usize) -> NodeInfo {
    // distinct /16 per node so that admission gates do not distort the table
    NodeInfo { id: NodeId::from_bytes(id), address: format!("{}.{}.{}.9:9000", 11 + (n % 200), 1 + (n / 200) % 250, n % 5), last_seen: SystemTime::now(), capacity: NodeCapacity::default() }
}
fn xor(a: &[u8; 32], b: &[u8; 32]) -> [u8; 32] {
    let mut r = [0u8; 32];
    for i in 0..32 {
        r[i] = a[i] ^ b[i];
    }
    r
}

async fn table(eng: &DhtCoreEngine) -> Vec<[u8; 32]> {
    eng.verif_routing_ids().await.iter().map(|n| *n.as_bytes()).collect()
}

fn check_table(v: &mut Verdict, ids: &[[u8; 32]], local: &[u8; 32], site: &str) -> BTreeSet<[u8; 32]> {
    let set: BTreeSet<[u8; 32]> = ids.iter().cloned().collect();
    if set.len() != ids.len() {
        v.fail(format!("{ID}/{site}/table-lists-a-peer-twice"), format!("{} entries, {} distinct", ids.len(), set.len()));
    }
    if set.contains(local) {
        v.fail(format!("{ID}/{site}/table-lists-the-local-node"), "local id is in its own routing table".to_string());
    }
    set
}

fn expect(m: &BTreeSet<[u8; 32]>, key: &[u8; 32], n: usize) -> Vec<[u8; 32]> {
    let mut all: Vec<[u8; 32]> = m.iter().cloned().collect();
    all.sort_by_key(|i| xor(i, key));
    all.truncate(n);
    all
}

fn compare(v: &mut Verdict, got: &[NodeInfo], want: &[[u8; 32]], site: &str, key: &[u8; 32], n: usize, m: usize) {
    let g: Vec<[u8; 32]> = got.iter().map(|x| *x.id.as_bytes()).collect();
    if g == want {
        return;
    }
    let gs: HashSet<&[u8; 32]> = g.iter().collect();
    let class = if gs.len() != g.len() {
        "answer-repeats-a-peer"
    } else if g.len() != want.len() {
        "answer-has-wrong-size"
    } else if gs == want.iter().collect::<HashSet<_>>() {
        "answer-not-in-ascending-distance-order"
    } else {
        "answer-is-not-the-closest-set"
    };
    let show = |l: &[[u8; 32]]| l.iter().map(|i| hex::encode(&xor(i, key)[..3])).collect::<Vec<_>>();
    v.fail(format!("{ID}/{site}/{class}"), format!("n={n} table={m}: got distances {:?} want {:?}", show(&g), show(want)));
}

fn run_case(c: &Case) -> Verdict {
    let rt = paused_rt();
    rt.block_on(async {
        let mut v = Verdict::new();
        let local = local_id(c.local_seed);
        let mut eng = DhtCoreEngine::verif_new_log_only(NodeId::from_bytes(local)).expect("engine");
        let mut r = Resolver { local, history: Vec::new() };
        let mut m: BTreeSet<[u8; 32]> = BTreeSet::new();
        let mut n_info = 0usize;
        let mut repeated_or_self = false;
        for (step, op) in c.ops.iter().enumerate() {
            match op {
                Op::Join(picks) => {
                    let ids: Vec<[u8; 32]> = picks.iter().map(|p| r.get(p)).collect();
                    let infos: Vec<NodeInfo> = ids.iter().map(|i| { n_info += 1; info(*i, n_info) }).collect();
                    if ids.iter().any(|i| *i == local || m.contains(i)) {
                        repeated_or_self = true;
                    }
                    let res = eng.join_network(infos).await;
                    let after = check_table(&mut v, &table(&eng).await, &local, "join_network");
                    let offered: BTreeSet<[u8; 32]> = ids.iter().cloned().collect();
                    if !(m.is_subset(&after)) {
                        v.fail(format!("{ID}/join_network/existing-entry-lost"), format!("step {step}"));
                    }
                    if !after.iter().all(|i| m.contains(i) || offered.contains(i)) {
                        v.fail(format!("{ID}/join_network/unknown-entry-appeared"), format!("step {step}"));
                    }
                    if res.is_ok() {
                        for i in &offered {
                            if *i != local && !after.contains(i) {
                                v.fail(format!("{ID}/join_network/acknowledged-node-not-in-table"), format!("step {step}: {}", hex::encode(&i[..4])));
                            }
                        }
                    }
                    m = after;
                    m.remove(&local);
                }
                Op::Add(p) => {
                    let id = r.get(p);
                    if id == local || m.contains(&id) {
                        repeated_or_self = true;
                    }
                    n_info += 1;
                    let res = eng.add_node(info(id, n_info)).await;
                    let after = check_table(&mut v, &table(&eng).await, &local, "add_node");
                    // re-adding a listed peer under new contact details may be refused by the admission gates; the
                    // peer itself may then be gone (its old slots were given back) - every *other* entry must survive
                    let lost: Vec<&[u8; 32]> = m.iter().filter(|i| !after.contains(*i)).collect();
                    if lost.iter().any(|i| **i != id) || (!lost.is_empty() && res.is_ok()) {
                        v.fail(format!("{ID}/add_node/existing-entry-lost"), format!("step {step}"));
                    }
                    if !after.iter().all(|i| m.contains(i) || *i == id) {
                        v.fail(format!("{ID}/add_node/unknown-entry-appeared"), format!("step {step}"));
                    }
                    if res.is_ok() && id != local && !after.contains(&id) {
                        v.fail(format!("{ID}/add_node/acknowledged-node-not-in-table"), format!("step {step}"));
                    }
                    m = after;
                    m.remove(&local);
                }
                Op::Fail(p) => {
                    let id = r.get(p);
                    let _ = eng.handle_node_failure(NodeId::from_bytes(id)).await;
                    m.remove(&id);
                    let after = check_table(&mut v, &table(&eng).await, &local, "handle_node_failure");
                    let mut want = m.clone();
                    want.remove(&local);
                    let mut a2 = after.clone();
                    a2.remove(&local);
                    if a2 != want {
                        v.fail(format!("{ID}/handle_node_failure/table-differs-from-model-after-removal"), format!("step {step}: {} vs {}", after.len(), want.len()));
                    }
                }
                Op::Evict(p) => {
                    let id = r.get(p);
                    let _ = eng.evict_node(&NodeId::from_bytes(id), EvictionReason::Stale).await;
                    m.remove(&id);
                    let after = check_table(&mut v, &table(&eng).await, &local, "evict_node");
                    let mut a2 = after.clone();
                    a2.remove(&local);
                    if a2 != m {
                        v.fail(format!("{ID}/evict_node/table-differs-from-model-after-removal"), format!("step {step}: {} vs {}", after.len(), m.len()));
                    }
                }
            }
            if !v.ok() {
                break;
            }
        }
        // queries
        let mut interesting_query = false;
        let mut bucket_pop: std::collections::HashMap<usize, usize> = std::collections::HashMap::new();
        for i in &m {
            let d = xor(i, &local);
            let b = d.iter().position(|x| *x != 0).map(|p| p * 8 + d[p].leading_zeros() as usize).unwrap_or(255);
            *bucket_pop.entry(b).or_insert(0) += 1;
        }
        let most = bucket_pop.iter().max_by_key(|(_, n)| **n).map(|(b, _)| *b);
        if v.ok() {
            for q in &c.queries {
                let (kp, site) = match q {
                    Query::Find(k, _) => (k, "find_nodes"),
                    Query::FindNodeReq(k, _) => (k, "handle_request(FindNode)"),
                    Query::FindValueReq(k) => (k, "handle_request(FindValue)"),
                };
                // keys are drawn the same way as ids but never recorded as "earlier" ids
                let key = match kp {
                    IdPick::Bucket(b, s) => id_in_bucket(&local, *b, s.wrapping_add(101)),
                    IdPick::Local => local,
                    IdPick::Earlier(i) => {
                        if r.history.is_empty() {
                            local
                        } else {
                            r.history[idx(*i, r.history.len())]
                        }
                    }
                };
                let kd = xor(&key, &local);
                let kb = kd.iter().position(|x| *x != 0).map(|p| p * 8 + kd[p].leading_zeros() as usize).unwrap_or(255);
                if bucket_pop.len() >= 2 && Some(kb) != most {
                    interesting_query = true;
                }
                match q {
                    Query::Find(_, n) => {
                        let n = *n as usize;
                        let got = eng.find_nodes(&DhtKey::from_bytes(key), n).await.unwrap_or_default();
                        compare(&mut v, &got, &expect(&m, &key, n), site, &key, n, m.len());
                    }
                    Query::FindNodeReq(_, cp) => {
                        let count = match cp {
                            CountPick::N(n) => *n as usize,
                            CountPick::Max => usize::MAX,
                            CountPick::Big(x) => *x as usize,
                        };
                        let resp = eng.handle_request(DhtRequestWrapper { id: "q".into(), message: DhtMessage::FindNode { target: DhtKey::from_bytes(key), count } }).await;
                        match resp.response {
                            DhtResponse::FindNodeReply { nodes, .. } => {
                                if nodes.len() > 20 {
                                    v.fail(format!("{ID}/{site}/reply-exceeds-protocol-cap"), format!("count={count} → {} nodes", nodes.len()));
                                }
                                compare(&mut v, &nodes, &expect(&m, &key, count.min(20)), site, &key, count.min(20), m.len());
                            }
                            other => v.fail(format!("{ID}/{site}/unexpected-reply-kind"), format!("{other:?}")),
                        }
                    }
                    Query::FindValueReq(_) => {
                        let resp = eng.handle_request(DhtRequestWrapper { id: "q".into(), message: DhtMessage::FindValue { key: DhtKey::from_bytes(key) } }).await;
                        match resp.response {
                            DhtResponse::FindValueReply { value: None, nodes } => {
                                if nodes.len() > 8 {
                                    v.fail(format!("{ID}/{site}/reply-exceeds-protocol-cap"), format!("{} nodes", nodes.len()));
                                }
                                compare(&mut v, &nodes, &expect(&m, &key, 8), site, &key, 8, m.len());
                            }
                            other => v.fail(format!("{ID}/{site}/unexpected-reply-kind"), format!("{other:?}")),
                        }
                    }
                }
                if !v.ok() {
                    break;
                }
            }
        }
        v.nt((bucket_pop.len() >= 2 && interesting_query) || repeated_or_self);
        if repeated_or_self {
            v.class("repeated_or_self_id");
        }
        if bucket_pop.values().any(|n| *n >= 8) {
            v.class("full_bucket");
        }
        v.class(format!("buckets_{}", bucket_pop.len().min(6)));
        v.count("table_size", m.len() as u64);
        v
    })
}

fn id_pick() -> impl Strategy<Value = IdPick> {
    let bucket = prop_oneof![5 => 0u8..=4, 2 => 250u8..=255, 2 => 5u8..=40, 1 => any::<u8>()];
    prop_oneof![
        12 => (bucket, any::<u8>()).prop_map(|(b, s)| IdPick::Bucket(b, s)),
        1 => Just(IdPick::Local),
        3 => any::<u16>().prop_map(IdPick::Earlier),
    ]
}

pub fn case(max_ops: usize) -> impl Strategy<Value = Case> {
    let op = prop_oneof![
        3 => prop::collection::vec(id_pick(), 1..6).prop_map(Op::Join),
        6 => id_pick().prop_map(Op::Add),
        1 => id_pick().prop_map(Op::Fail),
        1 => id_pick().prop_map(Op::Evict),
    ];
    let count = prop_oneof![4 => (0u8..=64).prop_map(CountPick::N), 1 => Just(CountPick::Max), 1 => any::<u32>().prop_map(CountPick::Big)];
    let q = prop_oneof![
        4 => (id_pick(), 0u8..=64).prop_map(|(k, n)| Query::Find(k, n)),
        2 => (id_pick(), count).prop_map(|(k, c)| Query::FindNodeReq(k, c)),
        1 => id_pick().prop_map(Query::FindValueReq),
    ];
    (prop_oneof![1 => Just(0u8), 3 => any::<u8>()], prop::collection::vec(op, 0..max_ops), prop::collection::vec(q, 1..8)).prop_map(|(local_seed, ops, queries)| Case { local_seed, ops, queries })
}

// ---- byte decoder for the coverage-guided stage: same shapes and ranges as the strategies above ----------
fn id_dec(u: &mut arbitrary::Unstructured) -> arbitrary::Result<IdPick> {
    Ok(match u.int_in_range(0u8..=15)? {
        0..=11 => {
            let b = match u.int_in_range(0u8..=9)? {
                0..=4 => u.int_in_range(0u8..=4)?,
                5 | 6 => u.int_in_range(250u8..=255)?,
                7 | 8 => u.int_in_range(5u8..=40)?,
                _ => u.arbitrary()?,
            };
            IdPick::Bucket(b, u.arbitrary()?)
        }
        12 => IdPick::Local,
        _ => IdPick::Earlier(u.arbitrary()?),
    })
}
pub fn decode(data: &[u8]) -> Option<Case> {
    let mut u = arbitrary::Unstructured::new(data);
    let r: arbitrary::Result<Case> = (|| {
        let local_seed = if u.ratio(1u8, 4u8)? { 0 } else { u.arbitrary()? };
        let nq = u.int_in_range(1usize..=7)?;
        let mut queries = Vec::new();
        for _ in 0..nq {
            queries.push(match u.int_in_range(0u8..=6)? {
                0..=3 => Query::Find(id_dec(&mut u)?, u.int_in_range(0u8..=64)?),
                4 | 5 => {
                    let k = id_dec(&mut u)?;
                    let c = match u.int_in_range(0u8..=5)? {
                        0..=3 => CountPick::N(u.int_in_range(0u8..=64)?),
                        4 => CountPick::Max,
                        _ => CountPick::Big(u.arbitrary()?),
                    };
                    Query::FindNodeReq(k, c)
                }
                _ => Query::FindValueReq(id_dec(&mut u)?),
            });
        }
        let n = u.int_in_range(0usize..=59)?;
        let mut ops = Vec::new();
        for _ in 0..n {
            ops.push(match u.int_in_range(0u8..=10)? {
                0..=2 => {
                    let m = u.int_in_range(1usize..=5)?;
                    let mut ids = Vec::new();
                    for _ in 0..m {
                        ids.push(id_dec(&mut u)?);
                    }
                    Op::Join(ids)
                }
                3..=8 => Op::Add(id_dec(&mut u)?),
                9 => Op::Fail(id_dec(&mut u)?),
                _ => Op::Evict(id_dec(&mut u)?),
            });
        }
        Ok(Case { local_seed, ops, queries })
    })();
    r.ok()
}

// ---- (b) the node list in a manager's reply to a remote FIND_NODE / FIND_VALUE / GET -----------------
#[derive(Debug, Clone, Serialize, Deserialize)]
pub struct ReplyCase {
    peers: u8,
    id_seed: u8,
    key: u8,
    op: u8,
    requester: u8,
    /// some peers disconnect again before the request (they stay in the routing table)
    disconnect: Vec<u8>,
}
fn run_reply(c: &ReplyCase) -> Verdict {
    use crate::memnet::*;
    use saorsa_core::dht_network_manager::{DhtMessageType, DhtNetworkMessage, DhtNetworkOperation};
    use saorsa_core::network::verif as wire;
    let rt = paused_rt();
    rt.block_on(async {
        let mut v = Verdict::new();
        let hub = Hub::new(2, 0);
        let node = match add_node(&hub, super::c01::tid_bytes(c.id_seed, 0), node_addr(0), None, std::time::Duration::from_secs(2), 8).await {
            Ok(n) => n,
            Err(e) => {
                v.fail(format!("{ID}/harness/node-construction-failed"), e);
                return v;
            }
        };
        let np = 1 + (c.peers as usize % 14);
        let mut peers = Vec::new();
        for i in 0..np {
            let sid = add_stub(&hub, super::c01::tid_bytes(c.id_seed, 1 + i), node_addr(1 + i), StubScript::default());
            let _ = node.th.connect_peer(&node_addr(1 + i).to_string()).await;
            peers.push(sid);
        }
        settle(30).await;
        let req = c.requester as usize % np;
        let key = *blake3::hash(&[c.key, c.id_seed, 0x2b]).as_bytes();
        let payload = match c.op % 3 {
            0 => DhtNetworkOperation::FindNode { key },
            1 => DhtNetworkOperation::FindValue { key },
            _ => DhtNetworkOperation::Get { key },
        };
        let site = match c.op % 3 {
            0 => "reply(FindNode)",
            1 => "reply(FindValue)",
            _ => "reply(Get)",
        };
        let msg = DhtNetworkMessage { message_id: "q1".into(), source: peers[req].clone(), target: Some(node.tid.clone()), message_type: DhtMessageType::Request, payload, result: None, timestamp: now_secs(), ttl: 10, hop_count: 0 };
        let frame = wire::encode_wire_message("/dht/1.0.0", postcard::to_stdvec(&msg).unwrap_or_default(), &peers[req], now_secs());
        hub.clear_trace();
        hub.inject(&peers[req], &node.tid, frame).await;
        settle(30).await;
        let mut named: Option<Vec<String>> = None;
        for e in hub.trace() {
            if let Ev::Frame { from, to, dht: Some(d), .. } = e {
                if from == node.tid && to == peers[req] && !d.is_request && d.message_id == "q1" {
                    named = Some(d.named.clone());
                }
            }
        }
        let Some(named) = named else {
            // with a single known peer (the requester) an empty answer may be sent as not-found
            if np > 1 {
                v.fail(format!("{ID}/{site}/no-reply"), format!("{np} peers known"));
            }
            return v;
        };
        v.check(named.len() <= 8, &format!("{ID}/{site}/reply-exceeds-protocol-cap"), || format!("{} nodes", named.len()));
        // every name must resolve to a known peer; one identifier per peer
        let key_of = |name: &str| -> Option<usize> { peers.iter().position(|p| p == name || hex::encode(dht_key_of(p)) == name) };
        let resolved: Vec<Option<usize>> = named.iter().map(|n| key_of(n)).collect();
        if resolved.iter().any(|r| r.is_none()) {
            v.fail(format!("{ID}/{site}/reply-names-an-unknown-identifier"), format!("{:?}", named.iter().map(|n| &n[..8.min(n.len())]).collect::<Vec<_>>()));
        }
        let idx: Vec<usize> = resolved.iter().flatten().cloned().collect();
        let mut uniq = idx.clone();
        uniq.sort();
        uniq.dedup();
        if uniq.len() != idx.len() {
            v.fail(format!("{ID}/{site}/peer-named-under-two-identifiers"), format!("{} entries name {} distinct peers", idx.len(), uniq.len()));
        }
        let d = |i: usize| xor(&dht_key_of(&peers[i]), &key);
        if idx.windows(2).any(|p| d(p[0]) > d(p[1])) {
            v.fail(format!("{ID}/{site}/reply-not-in-ascending-distance-order"), format!("{:?}", idx.iter().map(|i| hex::encode(&d(*i)[..3])).collect::<Vec<_>>()));
        }
        // exactness: top-8 of everything known, in one of the three readings about the requester
        let mut all: Vec<usize> = (0..np).collect();
        all.sort_by_key(|i| d(*i));
        let with_req: Vec<usize> = all.iter().take(8).cloned().collect();
        let filtered_after: Vec<usize> = with_req.iter().cloned().filter(|i| *i != req).collect();
        let filtered_before: Vec<usize> = all.iter().cloned().filter(|i| *i != req).take(8).collect();
        if v.ok() && idx != with_req && idx != filtered_after && idx != filtered_before {
            v.fail(format!("{ID}/{site}/reply-is-not-the-closest-known-peers"), format!("{np} peers known, requester #{req}: reply {idx:?}; closest known {all:?}"));
        }
        v.nt(np >= 3);
        v.class(site);
        let _ = tokio::time::timeout(std::time::Duration::from_secs(600), node.mgr.stop()).await;
        v
    })
}

pub fn check(c: &Case) -> Verdict {
    run_case(c)
}

pub fn run(run: &Run) {
    run.assume("membership after an add is read back from the table (bucket-full and gate refusals are the implementation's), then constrained: nothing lost, nothing foreign, acknowledged ids present, no duplicate, never the local id");
    run.set_rule("engine", "history of join_network/add_node/handle_node_failure/evict_node over ids drawn by bucket (0–4, 250–255, mid, any; the local id; repeats of earlier ids), then find_nodes / FindNode / FindValue queries with counts 0..=64, usize::MAX; non-trivial = ≥2 populated buckets and a query whose bucket is not the most populated one, or a repeated/self id in the history");
    let sh = shards_for(run.tier);
    run.prop("engine", run.tier.pick(90000, 900000), sh, case(40), run_case);
    run.prop("engine", run.tier.pick(4500, 60000), sh, case(300), run_case);
    run.set_rule("reply", "a real manager with 1..14 connected peers on the in-memory network answers a FIND_NODE / FIND_VALUE / GET frame from one of them: ≤8 names, each resolving to a distinct known peer, ascending distance, equal to the top-8 of everything it knows (requester kept, filtered after, or filtered before truncation); non-trivial = ≥3 peers known");
    let rc = (any::<u8>(), any::<u8>(), any::<u8>(), 0u8..3, any::<u8>(), prop::collection::vec(any::<u8>(), 0..3)).prop_map(|(peers, id_seed, key, op, requester, disconnect)| ReplyCase { peers, id_seed, key, op, requester, disconnect });
    run.prop("reply", run.tier.pick(12000, 90000), sh, rc, run_reply);
}

pub fn replay(run: &Run, sub: &str, case: &Value) -> Option<bool> {
    match sub {
        "engine" => Some(run.eval_case("replay/engine", &from_value::<Case>(case)?, &run_case)),
        "reply" => Some(run.eval_case("replay/reply", &from_value::<ReplyCase>(case)?, &run_reply)),
        _ => None,
    }
}
