//! C04 — replies reach only the matching request from the contacted peer; no leaks.
//! One real node + stub peers under a *manual* hub: outgoing request frames are parked, a generated
//! script then delivers genuine / spoofed / unknown / duplicate / late replies, advances virtual
//! time, aborts callers. Oracle: reference model of the pending-request table.
use super::c01::tid_bytes;
use crate::engine::*;
use crate::memnet::*;
use proptest::prelude::*;
use saorsa_core::dht_network_manager::{DhtMessageType, DhtNetworkMessage, DhtNetworkOperation, DhtNetworkResult};
use saorsa_core::network::verif as wire;
use saorsa_core::transport_handle::TransportHandle;
use serde::{Deserialize, Serialize};
use serde_json::Value;
use std::time::Duration;

const ID: &str = "C04";
const T_REQ: Duration = Duration::from_secs(2);

#[derive(Debug, Clone, Serialize, Deserialize)]
pub enum Step {
    /// issue a request to peer p
    Issue(u8),
    /// genuine reply for request r (right id, right peer)
    Genuine(u16),
    /// reply with an id nobody issued, from peer p
    UnknownId(u8),
    /// right id of request r, but from another connected peer
    OtherPeer(u16, u8),
    /// right id of request r, from an id that is not connected at all
    Unconnected(u16),
    /// a request-typed frame (not a response) carrying the id of request r, from its destination
    RequestWithSameId(u16),
    Advance(u16),
    Abort(u16),
    /// make peer p unreachable (sends fail) / reachable again
    Dead(u8, bool),
}
#[derive(Debug, Clone, Serialize, Deserialize)]
pub struct Case {
    peers: u8,
    via_rr: bool,
    steps: Vec<Step>,
}

#[derive(Debug, Clone, PartialEq)]
enum Expect {
    Pending,
    /// completes with the payload of delivery #n
    Reply(u32),
    /// a matching reply arrived within 5 ms of the deadline: reply #n or timeout are both fine
    Either(u32),
    Timeout,
    SendError,
    Aborted,
}
struct Req {
    dest: usize,
    id: Option<String>,
    issued: Duration,
    expect: Expect,
    handle: Option<tokio::task::JoinHandle<Result<String, String>>>,
}

fn run_case(c: &Case) -> Verdict {
    let rt = paused_rt();
    let pan0 = panic_count();
    let mut v = rt.block_on(async { run_async(c).await });
    attribute_task_panics(&mut v, ID, pan0);
    v
}

fn dht_reply(id: &str, from: &str, marker: u32, as_request: bool) -> Vec<u8> {
    let msg = DhtNetworkMessage {
        message_id: id.to_string(),
        source: from.to_string(),
        target: None,
        message_type: if as_request { DhtMessageType::Request } else { DhtMessageType::Response },
        payload: DhtNetworkOperation::Ping,
        result: if as_request { None } else { Some(DhtNetworkResult::PongReceived { responder: format!("d{marker}"), latency: Duration::ZERO }) },
        timestamp: now_secs(),
        ttl: 9,
        hop_count: 1,
    };
    wire::encode_wire_message("/dht/1.0.0", postcard::to_stdvec(&msg).unwrap_or_default(), from, now_secs())
}
fn rr_reply(id: &str, from: &str, marker: u32, as_request: bool) -> Vec<u8> {
    let env = wire::encode_rr_envelope(id, !as_request, format!("d{marker}").into_bytes());
    wire::encode_wire_message("/rr/test", env, from, now_secs())
}

async fn run_async(c: &Case) -> Verdict {
    let mut v = Verdict::new();
    let hub = Hub::new(4, 0);
    let node = match add_node(&hub, tid_bytes(0x44, 0), node_addr(0), None, T_REQ, 8).await {
        Ok(n) => std::sync::Arc::new(n),
        Err(e) => {
            v.fail(format!("{ID}/harness/node-construction-failed"), e);
            return v;
        }
    };
    let np = (c.peers as usize).clamp(1, 6);
    let mut peers = Vec::new();
    for i in 0..np {
        let sid = add_stub(&hub, tid_bytes(0x44, 10 + i), node_addr(10 + i), StubScript::default());
        let _ = node.th.connect_peer(&node_addr(10 + i).to_string()).await;
        peers.push(sid);
    }
    let stranger = hex::encode(tid_bytes(0x44, 99));
    settle(20).await;
    hub.set_manual(true);
    let t0 = tokio::time::Instant::now();
    let site = if c.via_rr { "TransportHandle::send_request" } else { "DhtNetworkManager::send_request" };
    let mut reqs: Vec<Req> = Vec::new();
    let mut delivery = 0u32;
    let mut adversarial_with_two_pending = false;
    let mut dead = vec![false; np];
    // bring the model up to date with the virtual clock
    fn expire(reqs: &mut [Req], now: Duration) {
        for r in reqs.iter_mut() {
            if r.expect == Expect::Pending && now >= r.issued + T_REQ {
                r.expect = Expect::Timeout;
            }
        }
    }
    for step in &c.steps {
        let now = t0.elapsed();
        expire(&mut reqs, now);
        let pending_now = reqs.iter().filter(|r| r.expect == Expect::Pending).count();
        match step {
            Step::Dead(p, d) => {
                let p = *p as usize % np;
                dead[p] = *d;
                hub.set_mode(&peers[p], if *d { Mode::Dead } else { Mode::Up });
            }
            Step::Issue(p) => {
                let p = *p as usize % np;
                let nd = node.clone();
                let peer = peers[p].clone();
                let via_rr = c.via_rr;
                let h = tokio::spawn(async move {
                    if via_rr {
                        let th: &TransportHandle = &nd.th;
                        th.send_request(&peer, "test", b"ping".to_vec(), T_REQ).await.map(|r| String::from_utf8_lossy(&r.data).to_string()).map_err(|e| e.to_string())
                    } else {
                        match nd.mgr.send_request(&peer, DhtNetworkOperation::Ping).await {
                            Ok(DhtNetworkResult::PongReceived { responder, .. }) => Ok(responder),
                            Ok(other) => Ok(format!("{other:?}")),
                            Err(e) => Err(e.to_string()),
                        }
                    }
                });
                settle(1).await;
                // learn the id from the parked frame
                let mut id = None;
                for (_from, to, frame) in hub.take_parked() {
                    if to == peers[p] {
                        if let Some((proto, data, _, _)) = wire::decode_wire_message(&frame) {
                            if proto == "/dht/1.0.0" {
                                if let Ok(m) = postcard::from_bytes::<DhtNetworkMessage>(&data) {
                                    id = Some(m.message_id);
                                }
                            } else if let Some((mid, _, _)) = TransportHandle::parse_request_envelope(&data) {
                                id = Some(mid);
                            }
                        }
                    }
                }
                let expect = if dead[p] { Expect::SendError } else { Expect::Pending };
                if !dead[p] && id.is_none() {
                    v.fail(format!("{ID}/{site}/request-frame-not-sent"), "no frame reached the hub".to_string());
                }
                reqs.push(Req { dest: p, id, issued: now, expect, handle: Some(h) });
            }
            Step::Genuine(r) | Step::OtherPeer(r, _) | Step::Unconnected(r) | Step::RequestWithSameId(r) => {
                if reqs.is_empty() {
                    continue;
                }
                let ri = idx(*r, reqs.len());
                let Some(id) = reqs[ri].id.clone() else { continue };
                delivery += 1;
                let (from, as_req, genuine) = match step {
                    Step::Genuine(_) => (peers[reqs[ri].dest].clone(), false, true),
                    Step::OtherPeer(_, q) => {
                        let q = *q as usize % np;
                        if q == reqs[ri].dest {
                            (peers[q].clone(), false, true)
                        } else {
                            (peers[q].clone(), false, false)
                        }
                    }
                    Step::Unconnected(_) => (stranger.clone(), false, false),
                    _ => (peers[reqs[ri].dest].clone(), true, false),
                };
                if !genuine && pending_now >= 2 {
                    adversarial_with_two_pending = true;
                }
                let deadline = reqs[ri].issued + T_REQ;
                let near_deadline = now + Duration::from_millis(5) >= deadline && now <= deadline + Duration::from_millis(5);
                if genuine && near_deadline && matches!(reqs[ri].expect, Expect::Pending | Expect::Timeout) {
                    reqs[ri].expect = Expect::Either(delivery);
                } else if genuine && reqs[ri].expect == Expect::Pending {
                    reqs[ri].expect = Expect::Reply(delivery);
                } else if pending_now >= 2 {
                    // duplicate / late genuine replies are adversarial deliveries too
                    adversarial_with_two_pending = true;
                }
                let frame = if c.via_rr { rr_reply(&id, &from, delivery, as_req) } else { dht_reply(&id, &from, delivery, as_req) };
                hub.inject(&from, &node.tid, frame).await;
                settle(1).await;
                let _ = hub.take_parked();
            }
            Step::UnknownId(p) => {
                delivery += 1;
                let from = peers[*p as usize % np].clone();
                let id = format!("00000000-0000-4000-8000-{:012x}", delivery);
                let frame = if c.via_rr { rr_reply(&id, &from, delivery, false) } else { dht_reply(&id, &from, delivery, false) };
                if pending_now >= 2 {
                    adversarial_with_two_pending = true;
                }
                hub.inject(&from, &node.tid, frame).await;
                settle(1).await;
                let _ = hub.take_parked();
            }
            Step::Advance(ms) => {
                tokio::time::sleep(Duration::from_millis(*ms as u64)).await;
            }
            Step::Abort(r) => {
                if reqs.is_empty() {
                    continue;
                }
                let ri = idx(*r, reqs.len());
                if reqs[ri].expect == Expect::Pending {
                    if let Some(h) = reqs[ri].handle.take() {
                        h.abort();
                        reqs[ri].expect = Expect::Aborted;
                    }
                }
            }
        }
    }
    // let everything time out, then compare outcomes
    tokio::time::sleep(T_REQ + Duration::from_millis(50)).await;
    let now = t0.elapsed();
    expire(&mut reqs, now);
    let any_aborted = reqs.iter().any(|r| r.expect == Expect::Aborted);
    for (i, r) in reqs.iter_mut().enumerate() {
        let Some(h) = r.handle.take() else { continue };
        let out = match tokio::time::timeout(Duration::from_secs(30), h).await {
            Err(_) => {
                v.fail(format!("{ID}/{site}/request-never-completed"), format!("request #{i} still pending {:?} after its timeout", Duration::from_secs(30)));
                continue;
            }
            Ok(Err(e)) => {
                v.fail(format!("{ID}/{site}/request-task-failed"), e.to_string());
                continue;
            }
            Ok(Ok(o)) => o,
        };
        match (&r.expect, &out) {
            (Expect::Reply(d), Ok(m)) => {
                if *m != format!("d{d}") {
                    v.fail(format!("{ID}/{site}/completed-with-a-reply-other-than-the-first-matching-one"), format!("request #{i}: expected delivery d{d}, got '{m}'"));
                }
            }
            (Expect::Reply(d), Err(e)) => v.fail(format!("{ID}/{site}/matching-reply-from-contacted-peer-not-delivered"), format!("request #{i}: delivery d{d} should have completed it, got error '{e}'")),
            (Expect::Timeout, Ok(m)) => v.fail(format!("{ID}/{site}/completed-by-a-reply-that-does-not-match"), format!("request #{i} to peer {} was completed with '{m}' although no reply with its id arrived from its destination while it was pending", r.dest)),
            (Expect::SendError, Ok(m)) => v.fail(format!("{ID}/{site}/completed-although-the-send-failed"), format!("request #{i}: '{m}'")),
            (Expect::Timeout, Err(_)) | (Expect::SendError, Err(_)) => {}
            (Expect::Either(d), Ok(m)) => {
                if *m != format!("d{d}") {
                    v.fail(format!("{ID}/{site}/completed-with-a-reply-other-than-the-first-matching-one"), format!("request #{i}: expected delivery d{d} or a timeout, got '{m}'"));
                }
            }
            (Expect::Either(_), Err(_)) => {}
            (Expect::Pending, _) | (Expect::Aborted, _) => {}
        }
    }
    // nothing of any request remains in the pending tables
    if any_aborted {
        // orphaned entries of dropped callers are swept at the next request after 2× the timeout
        tokio::time::sleep(T_REQ * 2 + Duration::from_millis(50)).await;
        hub.set_mode(&peers[0], Mode::Up);
        let nd = node.clone();
        let peer = peers[0].clone();
        let via_rr = c.via_rr;
        let h = tokio::spawn(async move {
            if via_rr {
                let _ = nd.th.send_request(&peer, "test", b"x".to_vec(), Duration::from_millis(100)).await;
            } else {
                let _ = nd.mgr.send_request(&peer, DhtNetworkOperation::Ping).await;
            }
        });
        let _ = tokio::time::timeout(T_REQ * 3, h).await;
    }
    let left = if c.via_rr { node.th.verif_active_requests_len().await } else { node.mgr.verif_active_operations_len() };
    // The DHT table sweeps orphaned entries by std::time::Instant (wall clock), which the paused tokio clock does not
    // advance: cancelled DHT callers are therefore judged by the real-time sub-check `sweep`, not here.
    let judged_here = c.via_rr || !any_aborted;
    if left != 0 && judged_here {
        let kind = if any_aborted { "entry-of-a-cancelled-request-left-in-pending-table" } else { "entry-left-in-pending-table" };
        v.fail(format!("{ID}/{site}/{kind}"), format!("{left} entries remain after every request completed"));
    }
    v.nt(adversarial_with_two_pending);
    v.class(if c.via_rr { "rr" } else { "dht" });
    if any_aborted {
        v.class("with_cancelled_caller");
    }
    let _ = tokio::time::timeout(Duration::from_secs(600), node.mgr.stop()).await;
    v
}

// ---- cap on concurrently pending application requests -------------------------------------------
#[derive(Debug, Clone, Serialize, Deserialize)]
pub struct CapCase {
    extra: u8,
}
fn run_cap(c: &CapCase) -> Verdict {
    let rt = paused_rt();
    rt.block_on(async {
        let mut v = Verdict::new();
        let hub = Hub::new(5, 0);
        let node = match add_node(&hub, tid_bytes(0x45, 0), node_addr(0), None, T_REQ, 8).await {
            Ok(n) => std::sync::Arc::new(n),
            Err(e) => {
                v.fail(format!("{ID}/harness/node-construction-failed"), e);
                return v;
            }
        };
        let sid = add_stub(&hub, tid_bytes(0x45, 1), node_addr(1), StubScript::default());
        let _ = node.th.connect_peer(&node_addr(1).to_string()).await;
        settle(10).await;
        hub.set_manual(true);
        let total = 256 + 1 + (c.extra % 8) as usize;
        let mut hs = Vec::new();
        for _ in 0..total {
            let nd = node.clone();
            let p = sid.clone();
            hs.push(tokio::spawn(async move { nd.th.send_request(&p, "test", b"x".to_vec(), T_REQ).await.is_ok() }));
            settle(1).await;
        }
        let pending = node.th.verif_active_requests_len().await;
        if pending > 256 {
            v.fail(format!("{ID}/TransportHandle::send_request/more-than-256-requests-pending"), format!("{pending} entries"));
        }
        let mut refused_immediately = 0;
        for h in hs.iter().skip(256) {
            if h.is_finished() {
                refused_immediately += 1;
            }
        }
        if refused_immediately != total - 256 {
            v.fail(format!("{ID}/TransportHandle::send_request/request-beyond-the-cap-not-refused"), format!("{} of {} requests beyond the cap were refused at once", refused_immediately, total - 256));
        }
        tokio::time::sleep(T_REQ + Duration::from_millis(100)).await;
        for h in hs {
            let _ = tokio::time::timeout(Duration::from_secs(10), h).await;
        }
        let left = node.th.verif_active_requests_len().await;
        if left != 0 {
            v.fail(format!("{ID}/TransportHandle::send_request/entry-left-in-pending-table"), format!("{left} entries after all timed out"));
        }
        v.nt(true);
        let _ = tokio::time::timeout(Duration::from_secs(600), node.mgr.stop()).await;
        v
    })
}

// ---- the /rr/ cap under real parallelism: check-and-insert must be one critical section -------------------
#[derive(Debug, Clone, Serialize, Deserialize)]
pub struct CapThreadsCase {
    /// free slots when the burst starts (0..=3)
    free: u8,
    /// callers in the burst beyond the free slots (8..=31)
    callers: u8,
    /// payload size class of the burst (bigger payloads keep a caller longer between check and insert)
    payload: u8,
}
fn run_cap_threads(c: &CapThreadsCase) -> Verdict {
    let rt = tokio::runtime::Builder::new_multi_thread().worker_threads(8).enable_all().build().expect("runtime");
    let mut v = rt.block_on(async {
        let mut v = Verdict::new();
        let t_req = Duration::from_secs(4);
        let hub = Hub::new(5, 0);
        let node = match add_node(&hub, tid_bytes(0x47, 0), node_addr(0), None, t_req, 8).await {
            Ok(n) => std::sync::Arc::new(n),
            Err(e) => {
                v.fail(format!("{ID}/harness/node-construction-failed"), e);
                return v;
            }
        };
        let sid = add_stub(&hub, tid_bytes(0x47, 1), node_addr(1), StubScript::default());
        let _ = node.th.connect_peer(&node_addr(1).to_string()).await;
        tokio::time::sleep(Duration::from_millis(10)).await;
        hub.set_mode(&sid, Mode::Silent);
        let free = (c.free % 4) as usize;
        let fill = 256 - free;
        let mut hs = Vec::new();
        for _ in 0..fill {
            let nd = node.clone();
            let p = sid.clone();
            hs.push(tokio::spawn(async move { nd.th.send_request(&p, "test", b"x".to_vec(), t_req).await.is_ok() }));
        }
        let t0 = std::time::Instant::now();
        while node.th.verif_active_requests_len().await < fill && t0.elapsed() < Duration::from_secs(3) {
            tokio::time::sleep(Duration::from_millis(2)).await;
        }
        if node.th.verif_active_requests_len().await != fill {
            // the machine is too slow to set the scene before the first requests time out: not judged
            v.class("scene_not_set(not judged)");
            for h in hs {
                h.abort();
            }
            return v;
        }
        let callers = free + 8 + (c.callers % 24) as usize;
        let size = [1usize << 10, 64 << 10, 512 << 10, 2 << 20][(c.payload % 4) as usize];
        let barrier = std::sync::Arc::new(tokio::sync::Barrier::new(callers));
        let mut burst = Vec::new();
        for _ in 0..callers {
            let (nd, p, b) = (node.clone(), sid.clone(), barrier.clone());
            let payload = vec![0x5a; size];
            burst.push(tokio::spawn(async move {
                b.wait().await;
                nd.th.send_request(&p, "test", payload, t_req).await.is_ok()
            }));
        }
        // watch the table while the burst runs
        let mut max_len = 0usize;
        let t1 = std::time::Instant::now();
        while t1.elapsed() < Duration::from_millis(400) {
            max_len = max_len.max(node.th.verif_active_requests_len().await);
            tokio::time::sleep(Duration::from_micros(300)).await;
        }
        let refused = burst.iter().filter(|h| h.is_finished()).count();
        if max_len > 256 {
            v.fail(format!("{ID}/TransportHandle::send_request/more-than-256-requests-pending"), format!("{max_len} entries while {callers} parallel callers competed for {free} free slots ({} were refused, payload {size} bytes)", refused));
        }
        v.class(format!("payload_{size}"));
        v.count("burst_callers", callers as u64);
        v.nt(true);
        for h in hs.into_iter().chain(burst) {
            h.abort();
        }
        let _ = tokio::time::timeout(Duration::from_secs(5), node.mgr.stop()).await;
        v
    });
    rt.shutdown_timeout(Duration::from_secs(5));
    v.class("real_threads");
    v
}

// ---- cancelled DHT callers on the real clock: the 2× timeout sweep ---------------------------------
#[derive(Debug, Clone, Serialize, Deserialize)]
pub struct SweepCase {
    cancelled: u8,
    completed: u8,
    /// how many of the cancelled callers get their genuine reply delivered just before they are dropped
    /// (delivered to the table, caller never polled again) ...
    #[serde(default)]
    reply_then_cancel: u8,
    /// ... and how many get it just after they were dropped (a valid late reply meets an orphaned entry)
    #[serde(default)]
    cancel_then_reply: u8,
}
fn run_sweep(c: &SweepCase) -> Verdict {
    let rt = tokio::runtime::Builder::new_current_thread().enable_all().build().unwrap();
    rt.block_on(async {
        let mut v = Verdict::new();
        let t = Duration::from_millis(40);
        let hub = Hub::new(6, 0);
        let node = match add_node(&hub, tid_bytes(0x46, 0), node_addr(0), None, t, 8).await {
            Ok(n) => std::sync::Arc::new(n),
            Err(e) => {
                v.fail(format!("{ID}/harness/node-construction-failed"), e);
                return v;
            }
        };
        let sid = add_stub(&hub, tid_bytes(0x46, 1), node_addr(1), StubScript::default());
        let _ = node.th.connect_peer(&node_addr(1).to_string()).await;
        tokio::time::sleep(Duration::from_millis(5)).await;
        hub.set_mode(&sid, Mode::Silent);
        let mut hs = Vec::new();
        for _ in 0..(1 + c.cancelled % 12) {
            let nd = node.clone();
            let p = sid.clone();
            hs.push(tokio::spawn(async move { nd.mgr.send_request(&p, DhtNetworkOperation::Ping).await.is_ok() }));
        }
        let mut done = Vec::new();
        for _ in 0..(c.completed % 6) {
            let nd = node.clone();
            let p = sid.clone();
            done.push(tokio::spawn(async move { nd.mgr.send_request(&p, DhtNetworkOperation::Ping).await.is_ok() }));
        }
        tokio::time::sleep(Duration::from_millis(5)).await;
        // message ids of the requests in flight, in send order (the first hs.len() belong to the callers to cancel)
        let ids: Vec<String> = hub.trace().iter().filter_map(|e| match e { Ev::Frame { from, dht: Some(d), .. } if *from == node.tid && d.is_request => Some(d.message_id.clone()), _ => None }).collect();
        let n_cancel = hs.len();
        let before = (c.reply_then_cancel as usize) % (n_cancel + 1);
        let after = (c.cancel_then_reply as usize) % (n_cancel - before + 1);
        for (i, h) in hs.iter().enumerate() {
            if i < before && i < ids.len() {
                // the reply reaches the pending table (the dispatcher runs while we wait), then the caller is dropped
                hub.inject(&sid, &node.tid, dht_reply(&ids[i], &sid, i as u32, false)).await;
                tokio::time::sleep(Duration::from_millis(1)).await;
            }
            h.abort();
        }
        tokio::task::yield_now().await;
        for i in before..(before + after).min(ids.len()) {
            hub.inject(&sid, &node.tid, dht_reply(&ids[i], &sid, i as u32, false)).await;
        }
        tokio::time::sleep(Duration::from_millis(2)).await;
        for h in done {
            let _ = h.await;
        }
        // more than 2× the timeout later, the next request sweeps what cancelled callers left behind
        tokio::time::sleep(t * 2 + Duration::from_millis(30)).await;
        let _ = node.mgr.send_request(&sid, DhtNetworkOperation::Ping).await;
        let left = node.mgr.verif_active_operations_len();
        if left != 0 {
            v.fail(format!("{ID}/DhtNetworkManager::send_request/entry-of-a-cancelled-request-left-in-pending-table"), format!("{left} entries remain 2× the timeout after {} callers were cancelled ({before} right after their reply had been delivered, {after} before a late reply arrived) and one more request ran", 1 + c.cancelled % 12));
        }
        if before + after > 0 {
            v.class("reply_meets_cancelled_caller");
        }
        v.nt(true);
        let _ = tokio::time::timeout(Duration::from_secs(5), node.mgr.stop()).await;
        v
    })
}

// ---- third pending table: DhtCoreEngine::retrieve → NetworkSender → handle_response -------------------------
// The engine's own query path: `retrieve` asks up to 3 of the closest routing-table entries through the
// NetworkSender it was given and waits for `handle_response` calls (5 s per query). The API has no sender
// argument, so only matching by id, exactly-once completion, no leak and the outcome rule are asserted.
use saorsa_core::dht::core_engine::{DhtCoreEngine, DhtKey, DhtRequestWrapper, DhtResponseWrapper, NodeCapacity, NodeId, NodeInfo};
use saorsa_core::dht::network_integration::{DhtMessage, DhtResponse};

const T_CORE: Duration = Duration::from_secs(5);

#[derive(Debug, Clone, Serialize, Deserialize)]
pub enum CoreStep {
    /// start a retrieve for a fresh key
    Retrieve,
    /// answer outstanding query #q: 0 value, 1 no value, 2 error reply, 3 a reply of another kind
    Reply(u16, u8),
    /// a reply carrying an id nobody issued
    UnknownId(u8),
    Advance(u16),
    /// drop the caller of retrieve #r
    Abort(u16),
    /// sends to table entry p fail / work again
    SendFails(u8, bool),
}
#[derive(Debug, Clone, Serialize, Deserialize)]
pub struct CoreCase {
    peers: u8,
    steps: Vec<CoreStep>,
}

#[derive(Default)]
struct SenderLog {
    /// (destination peer id string, request wrapper) in send order
    sent: Vec<(String, DhtRequestWrapper)>,
    failing: std::collections::HashSet<String>,
}
struct CoreSender {
    me: String,
    log: std::sync::Mutex<SenderLog>,
}
#[async_trait::async_trait]
impl saorsa_core::network::NetworkSender for CoreSender {
    async fn send_message(&self, peer_id: &String, _protocol: &str, data: Vec<u8>) -> saorsa_core::Result<()> {
        let mut g = self.log.lock().unwrap();
        if g.failing.contains(peer_id) {
            return Err(saorsa_core::P2PError::Network(saorsa_core::error::NetworkError::ProtocolError("verif: send fails".into())));
        }
        if let Ok(w) = postcard::from_bytes::<DhtRequestWrapper>(&data) {
            g.sent.push((peer_id.clone(), w));
        }
        Ok(())
    }
    fn local_peer_id(&self) -> &String {
        &self.me
    }
}

struct CoreQuery {
    retrieve: usize,
    id: String,
    sent_at: Duration,
    /// first reply delivered while pending: Some(Some(v)) value, Some(None) anything else
    outcome: Option<Option<Vec<u8>>>,
    /// a reply arrived within 5 ms of the deadline
    ambiguous: bool,
}

fn run_core(c: &CoreCase) -> Verdict {
    let rt = paused_rt();
    let pan0 = panic_count();
    let mut v = rt.block_on(async {
        let mut v = Verdict::new();
        let site = "DhtCoreEngine::retrieve";
        let mut eng = match DhtCoreEngine::verif_new_log_only(NodeId::from_bytes([0x04; 32])) {
            Ok(e) => e,
            Err(e) => {
                v.fail(format!("{ID}/harness/node-construction-failed"), e.to_string());
                return v;
            }
        };
        let sender = std::sync::Arc::new(CoreSender { me: "verif-core".into(), log: std::sync::Mutex::new(SenderLog::default()) });
        eng.set_transport(sender.clone());
        let peers = (c.peers as usize).clamp(1, 6);
        let mut peer_names = Vec::new();
        for i in 0..peers {
            let id = NodeId::from_bytes(*blake3::hash(&[i as u8, 0xc4]).as_bytes());
            peer_names.push(id.to_string());
            let _ = eng.add_node(NodeInfo { id, address: node_addr(i).to_string(), last_seen: std::time::SystemTime::now(), capacity: NodeCapacity::default() }).await;
        }
        let eng = std::sync::Arc::new(eng);
        let t0 = tokio::time::Instant::now();
        let mut handles: Vec<Option<tokio::task::JoinHandle<Result<Option<Vec<u8>>, String>>>> = Vec::new();
        let mut keys: Vec<DhtKey> = Vec::new();
        let mut aborted: Vec<bool> = Vec::new();
        let mut started: Vec<Duration> = Vec::new();
        let mut queries: Vec<CoreQuery> = Vec::new();
        let mut seen_sent = 0usize;
        let mut adversarial_while_two_pending = false;
        let mut serial = 0u32;
        // pull newly sent requests out of the sender log and attribute them to their retrieve by key
        macro_rules! collect {
            () => {{
                let g = sender.log.lock().unwrap();
                while seen_sent < g.sent.len() {
                    let (_to, w) = &g.sent[seen_sent];
                    seen_sent += 1;
                    if let DhtMessage::Retrieve { key, .. } = &w.message {
                        if let Some(r) = keys.iter().position(|k| k == key) {
                            queries.push(CoreQuery { retrieve: r, id: w.id.clone(), sent_at: started[r], outcome: None, ambiguous: false });
                        }
                    }
                }
            }};
        }
        for st in &c.steps {
            match st {
                CoreStep::Retrieve => {
                    if handles.len() >= 40 {
                        continue;
                    }
                    let r = handles.len();
                    let key = DhtKey::from_bytes(*blake3::hash(&[r as u8, 0x4c]).as_bytes());
                    keys.push(key.clone());
                    aborted.push(false);
                    started.push(t0.elapsed());
                    let e = eng.clone();
                    handles.push(Some(tokio::spawn(async move { e.retrieve(&key).await.map_err(|e| e.to_string()) })));
                    settle(1).await;
                    collect!();
                }
                CoreStep::Reply(q, kind) => {
                    collect!();
                    if queries.is_empty() {
                        continue;
                    }
                    let qi = idx(*q, queries.len());
                    serial += 1;
                    let val = vec![serial as u8, (serial >> 8) as u8, 0x04, qi as u8];
                    let response = match kind % 4 {
                        0 => DhtResponse::RetrieveReply { value: Some(val.clone()) },
                        1 => DhtResponse::RetrieveReply { value: None },
                        2 => DhtResponse::Error { code: saorsa_core::dht::network_integration::ErrorCode::NodeNotFound, message: "no".into(), retry_after: None },
                        _ => DhtResponse::LeaveAck { confirmed: true },
                    };
                    let now = t0.elapsed();
                    let pending_now = queries.iter().filter(|x| x.outcome.is_none() && !aborted[x.retrieve] && now < x.sent_at + T_CORE).count();
                    {
                        let x = &mut queries[qi];
                        let age = now.saturating_sub(x.sent_at);
                        if x.outcome.is_some() || aborted[x.retrieve] || age > T_CORE + Duration::from_millis(5) {
                            // duplicate, cancelled or late: must change nothing
                            if pending_now >= 2 {
                                adversarial_while_two_pending = true;
                            }
                        } else if age + Duration::from_millis(5) < T_CORE {
                            x.outcome = Some(if kind % 4 == 0 { Some(val) } else { None });
                        } else {
                            x.ambiguous = true;
                        }
                    }
                    let id = queries[qi].id.clone();
                    eng.handle_response(DhtResponseWrapper { id, response }).await;
                    settle(1).await;
                }
                CoreStep::UnknownId(x) => {
                    collect!();
                    let now = t0.elapsed();
                    if queries.iter().filter(|q| q.outcome.is_none() && !aborted[q.retrieve] && now < q.sent_at + T_CORE).count() >= 2 {
                        adversarial_while_two_pending = true;
                    }
                    eng.handle_response(DhtResponseWrapper { id: format!("00000000-0000-4000-8000-0000000000{x:02x}"), response: DhtResponse::RetrieveReply { value: Some(vec![0xbd; 8]) } }).await;
                    settle(1).await;
                }
                CoreStep::Advance(ms) => {
                    tokio::time::sleep(Duration::from_millis(*ms as u64)).await;
                }
                CoreStep::Abort(r) => {
                    if handles.is_empty() {
                        continue;
                    }
                    let r = idx(*r, handles.len());
                    if let Some(h) = handles[r].as_ref() {
                        if !h.is_finished() {
                            h.abort();
                            aborted[r] = true;
                        }
                    }
                    settle(1).await;
                }
                CoreStep::SendFails(p, on) => {
                    let name = peer_names[*p as usize % peers].clone();
                    let mut g = sender.log.lock().unwrap();
                    if *on {
                        g.failing.insert(name);
                    } else {
                        g.failing.remove(&name);
                    }
                }
            }
        }
        collect!();
        // every retrieve resolves once all of its queries have an answer or have timed out
        tokio::time::sleep(T_CORE + Duration::from_millis(100)).await;
        for (r, h) in handles.iter_mut().enumerate() {
            let Some(h) = h.take() else { continue };
            if aborted[r] {
                let _ = h.await;
                continue;
            }
            let got = match tokio::time::timeout(Duration::from_secs(60), h).await {
                Err(_) => {
                    v.fail(format!("{ID}/{site}/request-never-completed"), format!("retrieve #{r} still unresolved {T_CORE:?} after its last query was sent"));
                    continue;
                }
                Ok(Err(e)) => {
                    v.fail(format!("{ID}/{site}/request-task-failed"), e.to_string());
                    continue;
                }
                Ok(Ok(x)) => x,
            };
            let mine: Vec<&CoreQuery> = queries.iter().filter(|q| q.retrieve == r).collect();
            if mine.iter().any(|q| q.ambiguous) {
                v.class("reply_at_the_deadline(not judged)");
                continue;
            }
            // first successful reply in query order, else none
            let want: Option<Vec<u8>> = mine.iter().find_map(|q| q.outcome.clone().flatten());
            match got {
                Ok(g) => {
                    if g != want {
                        let any_value = mine.iter().filter_map(|q| q.outcome.clone().flatten()).any(|x| Some(&x) == g.as_ref());
                        let sig = if g.is_some() && !any_value { "completed-by-a-reply-that-does-not-match" } else if g.is_none() { "matching-reply-not-delivered" } else { "completed-with-a-reply-other-than-the-first-matching-one" };
                        v.fail(format!("{ID}/{site}/{sig}"), format!("retrieve #{r} with {} queries returned {:?}, the replies delivered to its own queries while pending give {:?}", mine.len(), g, want));
                    }
                }
                Err(e) => {
                    // an error is acceptable only when nothing could be delivered (every send failed)
                    if want.is_some() {
                        v.fail(format!("{ID}/{site}/matching-reply-not-delivered"), format!("retrieve #{r} failed with '{e}' although a value was delivered to one of its queries"));
                    }
                }
            }
        }
        let mut left = eng.verif_pending_requests_len().await;
        let cancelled = aborted.iter().filter(|a| **a).count();
        if left != 0 && cancelled > 0 {
            // entries of cancelled callers may be swept when the next query is admitted (as in TransportHandle):
            // issue one more retrieve, let its queries time out, and look again
            let e = eng.clone();
            let k = DhtKey::from_bytes(*blake3::hash(b"c04-extra").as_bytes());
            let h = tokio::spawn(async move { e.retrieve(&k).await.map(|_| ()).map_err(|e| e.to_string()) });
            tokio::time::sleep(T_CORE + Duration::from_millis(100)).await;
            let _ = tokio::time::timeout(Duration::from_secs(60), h).await;
            left = eng.verif_pending_requests_len().await;
            v.class("swept_by_next_query");
        }
        if left != 0 {
            v.fail(format!("{ID}/{site}/entry-left-in-pending-table"), format!("{left} entries remain after every retrieve resolved or was cancelled and {T_CORE:?} more passed ({cancelled} cancelled callers, {} queries)", queries.len()));
        }
        v.nt(adversarial_while_two_pending);
        if aborted.iter().any(|a| *a) {
            v.class("with_cancelled_caller");
        }
        v.count("queries", queries.len() as u64);
        v
    });
    attribute_task_panics(&mut v, ID, pan0);
    v
}

#[derive(Debug, Clone, Serialize, Deserialize)]
pub struct CoreCapCase {
    extra: u8,
}
/// Documented cap of the core-engine table: 10 000 simultaneously pending queries, the rest refused at once.
fn run_core_cap(c: &CoreCapCase) -> Verdict {
    let rt = paused_rt();
    rt.block_on(async {
        let mut v = Verdict::new();
        let site = "DhtCoreEngine::retrieve";
        let mut eng = match DhtCoreEngine::verif_new_log_only(NodeId::from_bytes([0x04; 32])) {
            Ok(e) => e,
            Err(e) => {
                v.fail(format!("{ID}/harness/node-construction-failed"), e.to_string());
                return v;
            }
        };
        let sender = std::sync::Arc::new(CoreSender { me: "verif-core".into(), log: std::sync::Mutex::new(SenderLog::default()) });
        eng.set_transport(sender.clone());
        for i in 0..3usize {
            let id = NodeId::from_bytes(*blake3::hash(&[i as u8, 0xc4]).as_bytes());
            let _ = eng.add_node(NodeInfo { id, address: node_addr(i).to_string(), last_seen: std::time::SystemTime::now(), capacity: NodeCapacity::default() }).await;
        }
        let eng = std::sync::Arc::new(eng);
        let retrieves = 3334 + c.extra as usize % 40;
        let mut hs = Vec::new();
        for r in 0..retrieves {
            let e = eng.clone();
            let key = DhtKey::from_bytes(*blake3::hash(&[(r >> 8) as u8, r as u8, 0x4d]).as_bytes());
            hs.push(tokio::spawn(async move { e.retrieve(&key).await.map_err(|e| e.to_string()) }));
        }
        settle(5).await;
        let pending = eng.verif_pending_requests_len().await;
        let sent = sender.log.lock().unwrap().sent.len();
        v.check(pending <= 10_000, &format!("{ID}/{site}/more-than-10000-queries-pending"), || format!("{pending} pending after {retrieves} concurrent retrieves of 3 queries each"));
        v.check(sent <= 10_000, &format!("{ID}/{site}/query-beyond-the-cap-not-refused"), || format!("{sent} queries sent with a cap of 10000"));
        v.check(pending == sent.min(10_000), &format!("{ID}/{site}/pending-count-differs-from-queries-in-flight"), || format!("{pending} pending, {sent} sent"));
        tokio::time::sleep(T_CORE + Duration::from_millis(100)).await;
        for h in hs {
            if tokio::time::timeout(Duration::from_secs(60), h).await.is_err() {
                v.fail(format!("{ID}/{site}/request-never-completed"), "a retrieve was still unresolved after the query timeout".to_string());
                break;
            }
        }
        let left = eng.verif_pending_requests_len().await;
        v.check(left == 0, &format!("{ID}/{site}/entry-left-in-pending-table"), || format!("{left} entries remain after every query timed out"));
        v.nt(true);
        v.count("queries_sent", sent as u64);
        v
    })
}
// byte decoder of CoreCase for the coverage-guided stage: same shapes and ranges as the strategy in `run`
pub fn decode_core(data: &[u8]) -> Option<CoreCase> {
    let mut u = arbitrary::Unstructured::new(data);
    let r: arbitrary::Result<CoreCase> = (|| {
        let peers = u.int_in_range(1u8..=6)?;
        let n = u.int_in_range(1usize..=120)?;
        let mut steps = Vec::new();
        for _ in 0..n {
            if u.is_empty() {
                break;
            }
            steps.push(match u.int_in_range(0u8..=18)? {
                0..=4 => CoreStep::Retrieve,
                5..=10 => CoreStep::Reply(u.arbitrary()?, u.int_in_range(0u8..=3)?),
                11 | 12 => CoreStep::UnknownId(u.arbitrary()?),
                13..=15 => CoreStep::Advance(match u.int_in_range(0u8..=2)? {
                    0 => u.int_in_range(1u16..=999)?,
                    1 => u.int_in_range(4900u16..=5099)?,
                    _ => u.int_in_range(5100u16..=8999)?,
                }),
                16 | 17 => CoreStep::Abort(u.arbitrary()?),
                _ => CoreStep::SendFails(u.arbitrary()?, u.arbitrary()?),
            });
        }
        if steps.is_empty() {
            steps.push(CoreStep::Retrieve);
        }
        Ok(CoreCase { peers, steps })
    })();
    r.ok()
}
pub fn check_core(c: &CoreCase) -> Verdict {
    run_core(c)
}

pub fn run(run: &Run) {
    run.assume("the hub is in manual mode: request frames are parked, every delivery to the node under test is an explicit script step with an explicit authenticated sender id; virtual time");
    run.assume("thread interleavings inside one critical section are not explored (single-threaded runtime); delivery/timeout/cancel orderings are");
    run.set_rule("script", "one real node + 1..6 stub peers; script (len 1..25, thorough ..120) of issue / genuine reply / unknown id / right id from another connected peer / right id from an unconnected id / request-typed frame with the same id / duplicates / advance virtual time (incl. past the timeout) / abort caller / unreachable peer, for DHT requests and for /rr/ application requests; non-trivial = an adversarial delivery while ≥2 requests are pending");
    run.set_rule("cap", "257..264 concurrent /rr/ requests: at most 256 pending, the rest refused at once, table empty after the timeouts");
    run.max_shrink.store(300, std::sync::atomic::Ordering::Relaxed);
    let sh = shards_for(run.tier);
    let maxlen = run.tier.pick(25usize, 120);
    let case = move || {
        let step = prop_oneof![
            6 => any::<u8>().prop_map(Step::Issue),
            4 => any::<u16>().prop_map(Step::Genuine),
            2 => any::<u8>().prop_map(Step::UnknownId),
            3 => (any::<u16>(), any::<u8>()).prop_map(|(r, q)| Step::OtherPeer(r, q)),
            2 => any::<u16>().prop_map(Step::Unconnected),
            1 => any::<u16>().prop_map(Step::RequestWithSameId),
            3 => prop_oneof![1u16..500, 1900u16..2100, 2100u16..5000].prop_map(Step::Advance),
            1 => any::<u16>().prop_map(Step::Abort),
            1 => (any::<u8>(), any::<bool>()).prop_map(|(p, d)| Step::Dead(p, d)),
        ];
        (1u8..=6, any::<bool>(), prop::collection::vec(step, 1..=maxlen)).prop_map(|(peers, via_rr, steps)| Case { peers, via_rr, steps })
    };
    run.prop_f("script", run.tier.pick(16000, 100000), sh, case, run_case);
    run.prop("cap", run.tier.pick(60, 160), 3, any::<u8>().prop_map(|extra| CapCase { extra }), run_cap);
    run.set_rule("core", "DhtCoreEngine::retrieve over a harness NetworkSender with 1..6 routing-table entries: script (len 1..25, thorough ..120) of retrieve / reply to an outstanding query (value, no value, error, wrong kind; duplicates and late ones arise by index) / unknown id / advance virtual time (incl. past the 5 s query timeout) / cancel the caller / failing sends; outcome = first value delivered to one of its own queries while pending, table empty at the end; non-trivial = duplicate, late, cancelled-target or unknown-id delivery while ≥2 queries are pending");
    let core_case = move || {
        let step = prop_oneof![
            5 => Just(CoreStep::Retrieve),
            6 => (any::<u16>(), 0u8..4).prop_map(|(q, k)| CoreStep::Reply(q, k)),
            2 => any::<u8>().prop_map(CoreStep::UnknownId),
            3 => prop_oneof![1u16..1000, 4900u16..5100, 5100u16..9000].prop_map(CoreStep::Advance),
            2 => any::<u16>().prop_map(CoreStep::Abort),
            1 => (any::<u8>(), any::<bool>()).prop_map(|(p, d)| CoreStep::SendFails(p, d)),
        ];
        (1u8..=6, prop::collection::vec(step, 1..=maxlen)).prop_map(|(peers, steps)| CoreCase { peers, steps })
    };
    run.prop_f("core", run.tier.pick(12000, 100000), sh, core_case, run_core);
    run.set_rule("core_cap", "3334..3373 concurrent retrieves of 3 queries each against the core-engine table: at most 10 000 pending, queries beyond the cap refused before they are sent, table empty after the timeouts");
    run.prop("core_cap", run.tier.pick(4, 24), 4, any::<u8>().prop_map(|extra| CoreCapCase { extra }), run_core_cap);
    run.set_rule("cap_threads", "real threads (8 workers): the /rr/ table is filled to 253..256 entries towards a silent peer, then 8..31 callers beyond the free slots, released by a barrier with payloads of 1 KiB..2 MiB, compete for them: the table must never exceed 256 entries (sampled every 0.3 ms for 400 ms)");
    run.prop("cap_threads", run.tier.pick(24, 400), 2, (any::<u8>(), any::<u8>(), any::<u8>()).prop_map(|(free, callers, payload)| CapThreadsCase { free, callers, payload }), run_cap_threads);
    run.set_rule("sweep", "real clock, request timeout 40 ms: 1..12 DHT callers cancelled mid-request - some right after their genuine reply reached the table, some before a late genuine reply arrives - (+0..5 that time out normally), then one more request after 2× the timeout: the pending table must be empty");
    run.prop("sweep", run.tier.pick(240, 1200), sh, (any::<u8>(), any::<u8>(), prop_oneof![1 => Just(0u8), 2 => any::<u8>()], prop_oneof![1 => Just(0u8), 2 => any::<u8>()]).prop_map(|(cancelled, completed, reply_then_cancel, cancel_then_reply)| SweepCase { cancelled, completed, reply_then_cancel, cancel_then_reply }), run_sweep);
}

pub fn replay(run: &Run, sub: &str, case: &Value) -> Option<bool> {
    match sub {
        "script" => Some(run.eval_case("replay/script", &from_value::<Case>(case)?, &run_case)),
        "cap" => Some(run.eval_case("replay/cap", &from_value::<CapCase>(case)?, &run_cap)),
        "cap_threads" => Some(run.eval_case("replay/cap_threads", &from_value::<CapThreadsCase>(case)?, &run_cap_threads)),
        "sweep" => Some(run.eval_case("replay/sweep", &from_value::<SweepCase>(case)?, &run_sweep)),
        "core" => Some(run.eval_case("replay/core", &from_value::<CoreCase>(case)?, &run_core)),
        "core_cap" => Some(run.eval_case("replay/core_cap", &from_value::<CoreCapCase>(case)?, &run_core_cap)),
        _ => None,
    }
}
