//! C04 — replies reach only the matching request from the contacted peer; no leaks.
//! One real node + stub peers under a *manual* hub: outgoing request frames are parked, a generated
//! script then delivers genuine / spoofed / unknown / duplicate / late replies, advances virtual
//! time, aborts callers. Oracle: reference model of the pending-request table.
use super::c01::tid_bytes;
use crate::engine::*;
use crate::memnet::*;
use proptest::prelude::*;
use saorsa_core::dht_network_manager::{DhtMessageType, DhtNetworkMessage, DhtNetworkOperation, DhtNetworkResult};
use saorsa_core::network::verif as wire;
use saorsa_core::transport_handle::TransportHandle;
use serde::{Deserialize, Serialize};
use serde_json::Value;
use std::time::Duration;

const ID: &str = "C04";
const T_REQ: Duration = Duration::from_secs(2);

#[derive(Debug, Clone, Serialize, Deserialize)]
pub enum Step {
    /// issue a request to peer p
    Issue(u8),
    /// genuine reply for request r (right id, right peer)
    Genuine(u16),
    /// reply with an id nobody issued, from peer p
    UnknownId(u8),
    /// right id of request r, but from another connected peer
    OtherPeer(u16, u8),
    /// right id of request r, from an id that is not connected at all
    Unconnected(u16),
    /// a request-typed frame (not a response) carrying the id of request r, from its destination
    RequestWithSameId(u16),
    Advance(u16),
    Abort(u16),
    /// make peer p unreachable (sends fail) / reachable again
    Dead(u8, bool),
}
#[derive(Debug, Clone, Serialize, Deserialize)]
pub struct Case {
    peers: u8,
    via_rr: bool,
    steps: Vec<Step>,
}

#[derive(Debug, Clone, PartialEq)]
enum Expect {
    Pending,
    /// completes with the payload of delivery #n
    Reply(u32),
    /// a matching reply arrived within 5 ms of the deadline: reply #n or timeout are both fine
    Either(u32),
    Timeout,
    SendError,
    Aborted,
}
struct Req {
    dest: usize,
    id: Option<String>,
    issued: Duration,
    expect: Expect,
    handle: Option<tokio::task::JoinHandle<Result<String, String>>>,
}

fn run_case(c: &Case) -> Verdict {
    let rt = paused_rt();
    let pan0 = panic_count();
    let mut v = rt.block_on(async { run_async(c).await });
    attribute_task_panics(&mut v, ID, pan0);
    v
}

fn dht_reply(id: &str, from: &str, marker: u32, as_request: bool) -> Vec<u8> {
    let msg = DhtNetworkMessage {
        message_id: id.to_string(),
        source: from.to_string(),
        target: None,
        message_type: if as_request { DhtMessageType::Request } else { DhtMessageType::Response },
        payload: DhtNetworkOperation::Ping,
        result: if as_request { None } else { Some(DhtNetworkResult::PongReceived { responder: format!("d{marker}"), latency: Duration::ZERO }) },
        timestamp: now_secs(),
        ttl: 9,
        hop_count: 1,
    };
    wire::encode_wire_message("/dht/1.0.0", postcard::to_stdvec(&msg).unwrap_or_default(), from, now_secs())
}
fn rr_reply(id: &str, from: &str, marker: u32, as_request: bool) -> Vec<u8> {
    let env = wire::encode_rr_envelope(id, !as_request, format!("d{marker}").into_bytes());
    wire::encode_wire_message("/rr/test", env, from, now_secs())
}

async fn run_async(c: &Case) -> Verdict {
    let mut v = Verdict::new();
    let hub = Hub::new(4, 0);
    let node = match add_node(&hub, tid_bytes(0x44, 0), node_addr(0), None, T_REQ, 8).await {
        Ok(n) => std::sync::Arc::new(n),
        Err(e) => {
            v.fail(format!("{ID}/harness/node-construction-failed"), e);
            return v;
        }
    };
    let np = (c.peers as usize).clamp(1, 6);
    let mut peers = Vec::new();
    for i in 0..np {
        let sid = add_stub(&hub, tid_bytes(0x44, 10 + i), node_addr(10 + i), StubScript::default());
        let _ = node.th.connect_peer(&node_addr(10 + i).to_string()).await;
        peers.push(sid);
    }
    let stranger = hex::encode(tid_bytes(0x44, 99));
    settle(20).await;
    hub.set_manual(true);
    let t0 = tokio::time::Instant::now();
    let site = if c.via_rr { "TransportHandle::send_request" } else { "DhtNetworkManager::send_request" };
    let mut reqs: Vec<Req> = Vec::new();
    let mut delivery = 0u32;
    let mut adversarial_with_two_pending = false;
    let mut dead = vec![false; np];
    // bring the model up to date with the virtual clock
    fn expire(reqs: &mut [Req], now: Duration) {
        for r in reqs.iter_mut() {
            if r.expect == Expect::Pending && now >= r.issued + T_REQ {
                r.expect = Expect::Timeout;
            }
        }
    }
    for step in &c.steps {
        let now = t0.elapsed();
        expire(&mut reqs, now);
        let pending_now = reqs.iter().filter(|r| r.expect == Expect::Pending).count();
        match step {
            Step::Dead(p, d) => {
                let p = *p as usize % np;
                dead[p] = *d;
                hub.set_mode(&peers[p], if *d { Mode::Dead } else { Mode::Up });
            }
            Step::Issue(p) => {
                let p = *p as usize % np;
                let nd = node.clone();
                let peer = peers[p].clone();
                let via_rr = c.via_rr;
                let h = tokio::spawn(async move {
                    if via_rr {
                        let th: &TransportHandle = &nd.th;
                        th.send_request(&peer, "test", b"ping".to_vec(), T_REQ).await.map(|r| String::from_utf8_lossy(&r.data).to_string()).map_err(|e| e.to_string())
                    } else {
                        match nd.mgr.send_request(&peer, DhtNetworkOperation::Ping).await {
                            Ok(DhtNetworkResult::PongReceived { responder, .. }) => Ok(responder),
                            Ok(other) => Ok(format!("{other:?}")),
                            Err(e) => Err(e.to_string()),
                        }
                    }
                });
                settle(1).await;
                // learn the id from the parked frame
                let mut id = None;
                for (_from, to, frame) in hub.take_parked() {
                    if to == peers[p] {
                        if let Some((proto, data, _, _)) = wire::decode_wire_message(&frame) {
                            if proto == "/dht/1.0.0" {
                                if let Ok(m) = postcard::from_bytes::<DhtNetworkMessage>(&data) {
                                    id = Some(m.message_id);
                                }
                            } else if let Some((mid, _, _)) = TransportHandle::parse_request_envelope(&data) {
                                id = Some(mid);
                            }
                        }
                    }
                }
                let expect = if dead[p] { Expect::SendError } else { Expect::Pending };
                if !dead[p] && id.is_none() {
                    v.fail(format!("{ID}/{site}/request-frame-not-sent"), "no frame reached the hub".to_string());
                }
                reqs.push(Req { dest: p, id, issued: now, expect, handle: Some(h) });
            }
            Step::Genuine(r) | Step::OtherPeer(r, _) | Step::Unconnected(r) | Step::RequestWithSameId(r) => {
                if reqs.is_empty() {
                    continue;
                }
                let ri = idx(*r, reqs.len());
                let Some(id) = reqs[ri].id.clone() else { continue };
                delivery += 1;
                let (from, as_req, genuine) = match step {
                    Step::Genuine(_) => (peers[reqs[ri].dest].clone(), false, true),
                    Step::OtherPeer(_, q) => {
                        let q = *q as usize % np;
                        if q == reqs[ri].dest {
                            (peers[q].clone(), false, true)
                        } else {
                            (peers[q].clone(), false, false)
                        }
                    }
                    Step::Unconnected(_) => (stranger.clone(), false, false),
                    _ => (peers[reqs[ri].dest].clone(), true, false),
                };
                if !genuine && pending_now >= 2 {
                    adversarial_with_two_pending = true;
                }
                let deadline = reqs[ri].issued + T_REQ;
                let near_deadline = now + Duration::from_millis(5) >= deadline && now <= deadline + Duration::from_millis(5);
                if genuine && near_deadline && matches!(reqs[ri].expect, Expect::Pending | Expect::Timeout) {
                    reqs[ri].expect = Expect::Either(delivery);
                } else if genuine && reqs[ri].expect == Expect::Pending {
                    reqs[ri].expect = Expect::Reply(delivery);
                } else if pending_now >= 2 {
                    // duplicate / late genuine replies are adversarial deliveries too
                    adversarial_with_two_pending = true;
                }
                let frame = if c.via_rr { rr_reply(&id, &from, delivery, as_req) } else { dht_reply(&id, &from, delivery, as_req) };
                hub.inject(&from, &node.tid, frame).await;
                settle(1).await;
                let _ = hub.take_parked();
            }
            Step::UnknownId(p) => {
                delivery += 1;
                let from = peers[*p as usize % np].clone();
                let id = format!("00000000-0000-4000-8000-{:012x}", delivery);
                let frame = if c.via_rr { rr_reply(&id, &from, delivery, false) } else { dht_reply(&id, &from, delivery, false) };
                if pending_now >= 2 {
                    adversarial_with_two_pending = true;
                }
                hub.inject(&from, &node.tid, frame).await;
                settle(1).await;
                let _ = hub.take_parked();
            }
            Step::Advance(ms) => {
                tokio::time::sleep(Duration::from_millis(*ms as u64)).await;
            }
            Step::Abort(r) => {
                if reqs.is_empty() {
                    continue;
                }
                let ri = idx(*r, reqs.len());
                if reqs[ri].expect == Expect::Pending {
                    if let Some(h) = reqs[ri].handle.take() {
                        h.abort();
                        reqs[ri].expect = Expect::Aborted;
                    }
                }
            }
        }
    }
    // let everything time out, then compare outcomes
    tokio::time::sleep(T_REQ + Duration::from_millis(50)).await;
    let now = t0.elapsed();
    expire(&mut reqs, now);
    let any_aborted = reqs.iter().any(|r| r.expect == Expect::Aborted);
    for (i, r) in reqs.iter_mut().enumerate() {
        let Some(h) = r.handle.take() else { continue };
        let out = match tokio::time::timeout(Duration::from_secs(30), h).await {
            Err(_) => {
                v.fail(format!("{ID}/{site}/request-never-completed"), format!("request #{i} still pending {:?} after its timeout", Duration::from_secs(30)));
                continue;
            }
            Ok(Err(e)) => {
                v.fail(format!("{ID}/{site}/request-task-failed"), e.to_string());
                continue;
            }
            Ok(Ok(o)) => o,
        };
        match (&r.expect, &out) {
            (Expect::Reply(d), Ok(m)) => {
                if *m != format!("d{d}") {
                    v.fail(format!("{ID}/{site}/completed-with-a-reply-other-than-the-first-matching-one"), format!("request #{i}: expected delivery d{d}, got '{m}'"));
                }
            }
            (Expect::Reply(d), Err(e)) => v.fail(format!("{ID}/{site}/matching-reply-from-contacted-peer-not-delivered"), format!("request #{i}: delivery d{d} should have completed it, got error '{e}'")),
            (Expect::Timeout, Ok(m)) => v.fail(format!("{ID}/{site}/completed-by-a-reply-that-does-not-match"), format!("request #{i} to peer {} was completed with '{m}' although no reply with its id arrived from its destination while it was pending", r.dest)),
            (Expect::SendError, Ok(m)) => v.fail(format!("{ID}/{site}/completed-although-the-send-failed"), format!("request #{i}: '{m}'")),
            (Expect::Timeout, Err(_)) | (Expect::SendError, Err(_)) => {}
            (Expect::Either(d), Ok(m)) => {
                if *m != format!("d{d}") {
                    v.fail(format!("{ID}/{site}/completed-with-a-reply-other-than-the-first-matching-one"), format!("request #{i}: expected delivery d{d} or a timeout, got '{m}'"));
                }
            }
            (Expect::Either(_), Err(_)) => {}
            (Expect::Pending, _) | (Expect::Aborted, _) => {}
        }
    }
    // nothing of any request remains in the pending tables
    if any_aborted {
        // orphaned entries of dropped callers are swept at the next request after 2× the timeout
        tokio::time::sleep(T_REQ * 2 + Duration::from_millis(50)).await;
        hub.set_mode(&peers[0], Mode::Up);
        let nd = node.clone();
        let peer = peers[0].clone();
        let via_rr = c.via_rr;
        let h = tokio::spawn(async move {
            if via_rr {
                let _ = nd.th.send_request(&peer, "test", b"x".to_vec(), Duration::from_millis(100)).await;
            } else {
                let _ = nd.mgr.send_request(&peer, DhtNetworkOperation::Ping).await;
            }
        });
        let _ = tokio::time::timeout(T_REQ * 3, h).await;
    }
    let left = if c.via_rr { node.th.verif_active_requests_len().await } else { node.mgr.verif_active_operations_len() };
    // The DHT table sweeps orphaned entries by std::time::Instant (wall clock), which the paused tokio clock does not
    // advance: cancelled DHT callers are therefore judged by the real-time sub-check `sweep`, not here.
    let judged_here = c.via_rr || !any_aborted;
    if left != 0 && judged_here {
        let kind = if any_aborted { "entry-of-a-cancelled-request-left-in-pending-table" } else { "entry-left-in-pending-table" };
        v.fail(format!("{ID}/{site}/{kind}"), format!("{left} entries remain after every request completed"));
    }
    v.nt(adversarial_with_two_pending);
    v.class(if c.via_rr { "rr" } else { "dht" });
    if any_aborted {
        v.class("with_cancelled_caller");
    }
    let _ = tokio::time::timeout(Duration::from_secs(600), node.mgr.stop()).await;
    v
}

// ---- cap on concurrently pending application requests -------------------------------------------
#[derive(Debug, Clone, Serialize, Deserialize)]
pub struct CapCase {
    extra: u8,
}
fn run_cap(c: &CapCase) -> Verdict {
    let rt = paused_rt();
    rt.block_on(async {
        let mut v = Verdict::new();
        let hub = Hub::new(5, 0);
        let node = match add_node(&hub, tid_bytes(0x45, 0), node_addr(0), None, T_REQ, 8).await {
            Ok(n) => std::sync::Arc::new(n),
            Err(e) => {
                v.fail(format!("{ID}/harness/node-construction-failed"), e);
                return v;
            }
        };
        let sid = add_stub(&hub, tid_bytes(0x45, 1), node_addr(1), StubScript::default());
        let _ = node.th.connect_peer(&node_addr(1).to_string()).await;
        settle(10).await;
        hub.set_manual(true);
        let total = 256 + 1 + (c.extra % 8) as usize;
        let mut hs = Vec::new();
        for _ in 0..total {
            let nd = node.clone();
            let p = sid.clone();
            hs.push(tokio::spawn(async move { nd.th.send_request(&p, "test", b"x".to_vec(), T_REQ).await.is_ok() }));
            settle(1).await;
        }
        let pending = node.th.verif_active_requests_len().await;
        if pending > 256 {
            v.fail(format!("{ID}/TransportHandle::send_request/more-than-256-requests-pending"), format!("{pending} entries"));
        }
        let mut refused_immediately = 0;
        for h in hs.iter().skip(256) {
            if h.is_finished() {
                refused_immediately += 1;
            }
        }
        if refused_immediately != total - 256 {
            v.fail(format!("{ID}/TransportHandle::send_request/request-beyond-the-cap-not-refused"), format!("{} of {} requests beyond the cap were refused at once", refused_immediately, total - 256));
        }
        tokio::time::sleep(T_REQ + Duration::from_millis(100)).await;
        for h in hs {
            let _ = tokio::time::timeout(Duration::from_secs(10), h).await;
        }
        let left = node.th.verif_active_requests_len().await;
        if left != 0 {
            v.fail(format!("{ID}/TransportHandle::send_request/entry-left-in-pending-table"), format!("{left} entries after all timed out"));
        }
        v.nt(true);
        let _ = tokio::time::timeout(Duration::from_secs(600), node.mgr.stop()).await;
        v
    })
}

// ---- cancelled DHT callers on the real clock: the 2× timeout sweep ---------------------------------
#[derive(Debug, Clone, Serialize, Deserialize)]
pub struct SweepCase {
    cancelled: u8,
    completed: u8,
}
fn run_sweep(c: &SweepCase) -> Verdict {
    let rt = tokio::runtime::Builder::new_current_thread().enable_all().build().unwrap();
    rt.block_on(async {
        let mut v = Verdict::new();
        let t = Duration::from_millis(40);
        let hub = Hub::new(6, 0);
        let node = match add_node(&hub, tid_bytes(0x46, 0), node_addr(0), None, t, 8).await {
            Ok(n) => std::sync::Arc::new(n),
            Err(e) => {
                v.fail(format!("{ID}/harness/node-construction-failed"), e);
                return v;
            }
        };
        let sid = add_stub(&hub, tid_bytes(0x46, 1), node_addr(1), StubScript::default());
        let _ = node.th.connect_peer(&node_addr(1).to_string()).await;
        tokio::time::sleep(Duration::from_millis(5)).await;
        hub.set_mode(&sid, Mode::Silent);
        let mut hs = Vec::new();
        for _ in 0..(1 + c.cancelled % 12) {
            let nd = node.clone();
            let p = sid.clone();
            hs.push(tokio::spawn(async move { nd.mgr.send_request(&p, DhtNetworkOperation::Ping).await.is_ok() }));
        }
        let mut done = Vec::new();
        for _ in 0..(c.completed % 6) {
            let nd = node.clone();
            let p = sid.clone();
            done.push(tokio::spawn(async move { nd.mgr.send_request(&p, DhtNetworkOperation::Ping).await.is_ok() }));
        }
        tokio::time::sleep(Duration::from_millis(5)).await;
        for h in &hs {
            h.abort();
        }
        for h in done {
            let _ = h.await;
        }
        // more than 2× the timeout later, the next request sweeps what cancelled callers left behind
        tokio::time::sleep(t * 2 + Duration::from_millis(30)).await;
        let _ = node.mgr.send_request(&sid, DhtNetworkOperation::Ping).await;
        let left = node.mgr.verif_active_operations_len();
        if left != 0 {
            v.fail(format!("{ID}/DhtNetworkManager::send_request/entry-of-a-cancelled-request-left-in-pending-table"), format!("{left} entries remain 2× the timeout after {} callers were cancelled and one more request ran", 1 + c.cancelled % 12));
        }
        v.nt(true);
        let _ = tokio::time::timeout(Duration::from_secs(5), node.mgr.stop()).await;
        v
    })
}

pub fn run(run: &Run) {
    run.assume("the hub is in manual mode: request frames are parked, every delivery to the node under test is an explicit script step with an explicit authenticated sender id; virtual time");
    run.assume("thread interleavings inside one critical section are not explored (single-threaded runtime); delivery/timeout/cancel orderings are");
    run.set_rule("script", "one real node + 1..6 stub peers; script (len 1..25, thorough ..120) of issue / genuine reply / unknown id / right id from another connected peer / right id from an unconnected id / request-typed frame with the same id / duplicates / advance virtual time (incl. past the timeout) / abort caller / unreachable peer, for DHT requests and for /rr/ application requests; non-trivial = an adversarial delivery while ≥2 requests are pending");
    run.set_rule("cap", "257..264 concurrent /rr/ requests: at most 256 pending, the rest refused at once, table empty after the timeouts");
    run.max_shrink.store(300, std::sync::atomic::Ordering::Relaxed);
    let sh = shards_for(run.tier);
    let maxlen = run.tier.pick(25usize, 120);
    let case = move || {
        let step = prop_oneof![
            6 => any::<u8>().prop_map(Step::Issue),
            4 => any::<u16>().prop_map(Step::Genuine),
            2 => any::<u8>().prop_map(Step::UnknownId),
            3 => (any::<u16>(), any::<u8>()).prop_map(|(r, q)| Step::OtherPeer(r, q)),
            2 => any::<u16>().prop_map(Step::Unconnected),
            1 => any::<u16>().prop_map(Step::RequestWithSameId),
            3 => prop_oneof![1u16..500, 1900u16..2100, 2100u16..5000].prop_map(Step::Advance),
            1 => any::<u16>().prop_map(Step::Abort),
            1 => (any::<u8>(), any::<bool>()).prop_map(|(p, d)| Step::Dead(p, d)),
        ];
        (1u8..=6, any::<bool>(), prop::collection::vec(step, 1..=maxlen)).prop_map(|(peers, via_rr, steps)| Case { peers, via_rr, steps })
    };
    run.prop_f("script", run.tier.pick(16000, 100000), sh, case, run_case);
    run.prop("cap", run.tier.pick(60, 160), 3, any::<u8>().prop_map(|extra| CapCase { extra }), run_cap);
    run.set_rule("sweep", "real clock, request timeout 40 ms: 1..12 DHT callers cancelled mid-request (+0..5 that time out normally), then one more request after 2× the timeout: the pending table must be empty");
    run.prop("sweep", run.tier.pick(240, 1200), sh, (any::<u8>(), any::<u8>()).prop_map(|(cancelled, completed)| SweepCase { cancelled, completed }), run_sweep);
}

pub fn replay(run: &Run, sub: &str, case: &Value) -> Option<bool> {
    match sub {
        "script" => Some(run.eval_case("replay/script", &from_value::<Case>(case)?, &run_case)),
        "cap" => Some(run.eval_case("replay/cap", &from_value::<CapCase>(case)?, &run_cap)),
        "sweep" => Some(run.eval_case("replay/sweep", &from_value::<SweepCase>(case)?, &run_sweep)),
        _ => None,
    }
}
