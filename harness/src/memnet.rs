//! In-memory network: real `TransportHandle` + `DhtNetworkManager` instances exchange the real
//! framed bytes through a hub instead of QUIC. Runs on tokio's paused clock (virtual time).
//! The hub records every dial, send attempt, frame, delivery and drop (the RPC trace), applies
//! per-peer fault behaviour, and hosts scripted stub peers (liars, hostile senders).
#![allow(dead_code)]
use async_trait::async_trait;
use saorsa_core::dht_network_manager::{DHTNode, DhtMessageType, DhtNetworkConfig, DhtNetworkManager, DhtNetworkMessage, DhtNetworkOperation, DhtNetworkResult};
use saorsa_core::network::verif as wire;
use saorsa_core::transport_handle::{verif::MemNet, TransportHandle};
use std::collections::{HashMap, VecDeque};
use std::net::SocketAddr;
use std::sync::{Arc, Mutex};
use std::time::{Duration, SystemTime, UNIX_EPOCH};

pub type Key = [u8; 32];

pub fn dht_key_of(peer_id: &str) -> Key {
    saorsa_core::dht::derive_dht_key_from_peer_id(peer_id)
}
pub fn xor(a: &Key, b: &Key) -> Key {
    let mut r = [0u8; 32];
    for i in 0..32 {
        r[i] = a[i] ^ b[i];
    }
    r
}

#[derive(Debug, Clone, Copy, PartialEq, Eq, serde::Serialize, serde::Deserialize)]
pub enum Mode {
    /// answers normally
    Up,
    /// connection stays up, every frame to it is lost
    Silent,
    /// cannot be dialled; sends to it fail at once
    Dead,
    /// answers, but every frame to it is delayed by this many milliseconds
    Slow(u32),
}

#[derive(Debug, Clone)]
pub struct DhtInfo {
    pub message_id: String,
    pub is_request: bool,
    pub op: &'static str,
    pub key: Option<Key>,
    pub claimed_source: String,
    /// peer ids named in a NodesFound result (responses only)
    pub named: Vec<String>,
    /// short name of the result variant (responses only)
    pub result: Option<&'static str>,
}
#[derive(Debug, Clone)]
pub enum Ev {
    Dial { t: Duration, from: String, addr: SocketAddr, to: Option<String> },
    Attempt { t: Duration, from: String, to: String, proto: String },
    Frame { t: Duration, from: String, to: String, proto: String, len: usize, dht: Option<DhtInfo> },
    Deliver { t: Duration, from: String, to: String, dht: Option<DhtInfo> },
    Drop { t: Duration, from: String, to: String, why: &'static str },
}

/// How a stub peer answers DHT requests.
#[derive(Debug, Clone, Default)]
pub struct StubScript {
    /// nodes named in every FIND_NODE / FIND_VALUE / GET reply
    pub reply_nodes: Vec<DHTNode>,
    /// acknowledge PUTs (without storing anything)
    pub ack_put: bool,
    /// value returned for FIND_VALUE / GET, if any
    pub value: Option<Vec<u8>>,
    /// answer with a wrong message id
    pub wrong_id: bool,
    /// answer every request with exactly this result (hostile replies)
    pub raw_result: Option<DhtNetworkResult>,
}

struct Entry {
    /// weak: the hub is owned by every TransportHandle (`verif_net`), a strong reference back would be a cycle that
    /// keeps each case's runtime (and its file descriptors) alive for ever
    th: Option<std::sync::Weak<TransportHandle>>,
    addr: SocketAddr,
    mode: Mode,
    stub: Option<StubScript>,
    /// (frames still to be accepted in the current mode, mode to switch to afterwards)
    mode_after: Option<(u32, Mode)>,
}

struct Inner {
    nodes: HashMap<String, Entry>,
    by_addr: HashMap<SocketAddr, String>,
    trace: Vec<Ev>,
    manual: bool,
    parked: VecDeque<(String, String, Vec<u8>)>,
    jitter_seed: u64,
    jitter_max_ms: u64,
    frames: u64,
    /// seeded scheduling noise: the caller of connect/send yields to the scheduler up to this many times first
    yield_max: u8,
    yields: u64,
}

pub struct Hub {
    inner: Mutex<Inner>,
    start: tokio::time::Instant,
    me: Mutex<std::sync::Weak<Hub>>,
}

pub fn op_name(op: &DhtNetworkOperation) -> (&'static str, Option<Key>) {
    match op {
        DhtNetworkOperation::Put { key, .. } => ("Put", Some(*key)),
        DhtNetworkOperation::Get { key } => ("Get", Some(*key)),
        DhtNetworkOperation::FindNode { key } => ("FindNode", Some(*key)),
        DhtNetworkOperation::FindValue { key } => ("FindValue", Some(*key)),
        DhtNetworkOperation::Ping => ("Ping", None),
        DhtNetworkOperation::Join => ("Join", None),
        DhtNetworkOperation::Leave => ("Leave", None),
    }
}

fn dht_info(proto: &str, data: &[u8]) -> Option<DhtInfo> {
    if proto != "/dht/1.0.0" {
        return None;
    }
    let m: DhtNetworkMessage = postcard::from_bytes(data).ok()?;
    let (op, key) = op_name(&m.payload);
    let (named, result) = match &m.result {
        Some(DhtNetworkResult::NodesFound { nodes, .. }) => (nodes.iter().map(|n| n.peer_id.clone()).collect(), Some("NodesFound")),
        Some(DhtNetworkResult::PutSuccess { .. }) => (vec![], Some("PutSuccess")),
        Some(DhtNetworkResult::GetSuccess { .. }) => (vec![], Some("GetSuccess")),
        Some(DhtNetworkResult::GetNotFound { .. }) => (vec![], Some("GetNotFound")),
        Some(DhtNetworkResult::ValueFound { .. }) => (vec![], Some("ValueFound")),
        Some(DhtNetworkResult::PongReceived { .. }) => (vec![], Some("Pong")),
        Some(DhtNetworkResult::JoinSuccess { .. }) => (vec![], Some("Join")),
        Some(DhtNetworkResult::LeaveSuccess) => (vec![], Some("Leave")),
        Some(DhtNetworkResult::Error { .. }) => (vec![], Some("Error")),
        None => (vec![], None),
    };
    Some(DhtInfo { message_id: m.message_id, is_request: matches!(m.message_type, DhtMessageType::Request), op, key, claimed_source: m.source, named, result })
}

pub fn now_secs() -> u64 {
    SystemTime::now().duration_since(UNIX_EPOCH).map(|d| d.as_secs()).unwrap_or(0)
}

impl Hub {
    pub fn new(jitter_seed: u64, jitter_max_ms: u64) -> Arc<Self> {
        let h = Arc::new(Hub { inner: Mutex::new(Inner { nodes: HashMap::new(), by_addr: HashMap::new(), trace: Vec::new(), manual: false, parked: VecDeque::new(), jitter_seed, jitter_max_ms, frames: 0, yield_max: 0, yields: 0 }), start: tokio::time::Instant::now(), me: Mutex::new(std::sync::Weak::new()) });
        *h.me.lock().unwrap() = Arc::downgrade(&h);
        h
    }
    fn me(&self) -> std::sync::Weak<Hub> {
        self.me.lock().unwrap().clone()
    }
    pub fn t(&self) -> Duration {
        self.start.elapsed()
    }
    pub fn register(&self, id: &str, addr: SocketAddr, th: Option<Arc<TransportHandle>>, stub: Option<StubScript>) {
        let mut g = self.inner.lock().unwrap();
        g.by_addr.insert(addr, id.to_string());
        g.nodes.insert(id.to_string(), Entry { th: th.as_ref().map(Arc::downgrade), addr, mode: Mode::Up, stub, mode_after: None });
    }
    pub fn set_mode(&self, id: &str, mode: Mode) {
        if let Some(e) = self.inner.lock().unwrap().nodes.get_mut(id) {
            e.mode = mode;
        }
    }
    /// Fault in the middle of an operation: `id` handles `n` more frames in its current mode, then switches to `mode`.
    pub fn set_mode_after(&self, id: &str, n: u32, mode: Mode) {
        if let Some(e) = self.inner.lock().unwrap().nodes.get_mut(id) {
            e.mode_after = Some((n, mode));
        }
    }
    pub fn set_stub(&self, id: &str, s: StubScript) {
        if let Some(e) = self.inner.lock().unwrap().nodes.get_mut(id) {
            e.stub = Some(s);
        }
    }
    pub fn set_yield_max(&self, y: u8) {
        self.inner.lock().unwrap().yield_max = y;
    }
    async fn seeded_yields(&self) {
        let k = {
            let mut g = self.inner.lock().unwrap();
            if g.yield_max == 0 {
                return;
            }
            g.yields += 1;
            blake3::hash(&[&g.jitter_seed.to_le_bytes()[..], &g.yields.to_le_bytes()[..], b"y"].concat()).as_bytes()[0] % (g.yield_max + 1)
        };
        for _ in 0..k {
            tokio::task::yield_now().await;
        }
    }
    pub fn set_manual(&self, m: bool) {
        self.inner.lock().unwrap().manual = m;
    }
    pub fn addr_of(&self, id: &str) -> Option<SocketAddr> {
        self.inner.lock().unwrap().nodes.get(id).map(|e| e.addr)
    }
    pub fn id_at(&self, addr: &SocketAddr) -> Option<String> {
        self.inner.lock().unwrap().by_addr.get(addr).cloned()
    }
    pub fn trace(&self) -> Vec<Ev> {
        self.inner.lock().unwrap().trace.clone()
    }
    pub fn trace_len(&self) -> usize {
        self.inner.lock().unwrap().trace.len()
    }
    pub fn clear_trace(&self) {
        self.inner.lock().unwrap().trace.clear();
    }
    pub fn take_parked(&self) -> Vec<(String, String, Vec<u8>)> {
        self.inner.lock().unwrap().parked.drain(..).collect()
    }
    fn push(&self, e: Ev) {
        let mut g = self.inner.lock().unwrap();
        if g.trace.len() < 200_000 {
            g.trace.push(e);
        }
    }

    /// Deliver a frame into a real node's receive loop as coming from `from` (authenticated id).
    pub async fn inject(&self, from: &str, to: &str, frame: Vec<u8>) -> bool {
        let th = { self.inner.lock().unwrap().nodes.get(to).and_then(|e| e.th.as_ref().and_then(|w| w.upgrade())) };
        let info = wire::decode_wire_message(&frame).and_then(|(p, d, _, _)| dht_info(&p, &d));
        match th {
            Some(th) => {
                let ok = th.verif_inject(from, frame).await;
                self.push(Ev::Deliver { t: self.t(), from: from.into(), to: to.into(), dht: info });
                ok
            }
            None => false,
        }
    }

    /// Build the reply a stub gives to a request frame (None = no reply).
    fn stub_reply(stub_id: &str, script: &StubScript, frame: &[u8]) -> Option<Vec<u8>> {
        let (proto, data, _from, _ts) = wire::decode_wire_message(frame)?;
        if proto != "/dht/1.0.0" {
            return None;
        }
        let m: DhtNetworkMessage = postcard::from_bytes(&data).ok()?;
        if !matches!(m.message_type, DhtMessageType::Request) {
            return None;
        }
        let result = if let Some(r) = &script.raw_result {
            r.clone()
        } else {
            match &m.payload {
            DhtNetworkOperation::FindNode { key } => DhtNetworkResult::NodesFound { key: *key, nodes: script.reply_nodes.clone() },
            DhtNetworkOperation::FindValue { key } | DhtNetworkOperation::Get { key } => match &script.value {
                Some(v) => DhtNetworkResult::ValueFound { key: *key, value: v.clone(), source: stub_id.to_string() },
                None => DhtNetworkResult::NodesFound { key: *key, nodes: script.reply_nodes.clone() },
            },
            DhtNetworkOperation::Put { key, .. } => {
                if !script.ack_put {
                    return None;
                }
                DhtNetworkResult::PutSuccess { key: *key, replicated_to: 1, peer_outcomes: vec![] }
            }
            DhtNetworkOperation::Ping => DhtNetworkResult::PongReceived { responder: stub_id.to_string(), latency: Duration::ZERO },
            DhtNetworkOperation::Join => DhtNetworkResult::JoinSuccess { assigned_key: dht_key_of(&m.source), bootstrap_peers: 1 },
            DhtNetworkOperation::Leave => DhtNetworkResult::LeaveSuccess,
            }
        };
        let resp = DhtNetworkMessage {
            message_id: if script.wrong_id { format!("{}-x", m.message_id) } else { m.message_id.clone() },
            source: stub_id.to_string(),
            target: Some(m.source.clone()),
            message_type: DhtMessageType::Response,
            payload: m.payload.clone(),
            result: Some(result),
            timestamp: now_secs(),
            ttl: 9,
            hop_count: 1,
        };
        let body = postcard::to_stdvec(&resp).ok()?;
        Some(wire::encode_wire_message("/dht/1.0.0", body, stub_id, now_secs()))
    }
}

#[async_trait]
impl MemNet for Hub {
    async fn connect(&self, from: &str, addr: SocketAddr) -> Option<String> {
        self.seeded_yields().await;
        let (to, th, from_addr, mode) = {
            let g = self.inner.lock().unwrap();
            let to = g.by_addr.get(&addr).cloned();
            let e = to.as_ref().and_then(|t| g.nodes.get(t));
            (to.clone(), e.and_then(|e| e.th.as_ref().and_then(|w| w.upgrade())), g.nodes.get(from).map(|e| e.addr), e.map(|e| e.mode))
        };
        let ok = to.is_some() && mode != Some(Mode::Dead) && to.as_deref() != Some(from);
        self.push(Ev::Dial { t: self.t(), from: from.into(), addr, to: if ok { to.clone() } else { None } });
        if !ok {
            return None;
        }
        if let (Some(th), Some(fa)) = (th, from_addr) {
            // the callee's accept path
            th.verif_accept(from, &fa.to_string()).await;
        }
        to
    }

    async fn send(&self, from: &str, to: &str, frame: Vec<u8>) -> Result<(), String> {
        self.seeded_yields().await;
        let (proto, data) = wire::decode_wire_message(&frame).map(|(p, d, _, _)| (p, d)).unwrap_or_default();
        let info = dht_info(&proto, &data);
        self.push(Ev::Frame { t: self.t(), from: from.into(), to: to.into(), proto: proto.clone(), len: frame.len(), dht: info });
        let (mode, th, stub, manual, delay) = {
            let mut g = self.inner.lock().unwrap();
            g.frames += 1;
            let n = g.frames;
            let jitter = if g.jitter_max_ms == 0 { 0 } else { blake3::hash(&[&g.jitter_seed.to_le_bytes()[..], &n.to_le_bytes()[..]].concat()).as_bytes()[0] as u64 * g.jitter_max_ms / 255 };
            let manual = g.manual;
            match g.nodes.get_mut(to) {
                None => (None, None, None, manual, jitter),
                Some(e) => {
                    match e.mode_after {
                        Some((0, m)) => {
                            e.mode = m;
                            e.mode_after = None;
                        }
                        Some((k, m)) => e.mode_after = Some((k - 1, m)),
                        None => {}
                    }
                    (Some(e.mode), e.th.as_ref().and_then(|w| w.upgrade()), e.stub.clone(), manual, jitter)
                }
            }
        };
        match mode {
            None | Some(Mode::Dead) => {
                self.push(Ev::Drop { t: self.t(), from: from.into(), to: to.into(), why: "dead" });
                return Err("connection closed".into());
            }
            Some(Mode::Silent) => {
                self.push(Ev::Drop { t: self.t(), from: from.into(), to: to.into(), why: "silent" });
                return Ok(());
            }
            _ => {}
        }
        if manual {
            self.inner.lock().unwrap().parked.push_back((from.to_string(), to.to_string(), frame));
            return Ok(());
        }
        let delay = match mode {
            Some(Mode::Slow(ms)) => Duration::from_millis(ms as u64),
            _ => Duration::from_millis(delay),
        };
        if let Some(th) = th {
            let from = from.to_string();
            let to2 = to.to_string();
            let me = self.me();
            tokio::spawn(async move {
                if !delay.is_zero() {
                    tokio::time::sleep(delay).await;
                }
                let info = wire::decode_wire_message(&frame).and_then(|(p, d, _, _)| dht_info(&p, &d));
                let _ = th.verif_inject(&from, frame).await;
                if let Some(h) = me.upgrade() {
                    h.push(Ev::Deliver { t: h.t(), from, to: to2, dht: info });
                }
            });
        } else if let Some(script) = stub {
            // a stub: compute its reply and hand it to the sender's receive loop
            if let Some(reply) = Hub::stub_reply(to, &script, &frame) {
                let back = { self.inner.lock().unwrap().nodes.get(from).and_then(|e| e.th.as_ref().and_then(|w| w.upgrade())) };
                if let Some(back) = back {
                    let stub_id = to.to_string();
                    let from2 = from.to_string();
                    let me = self.me();
                    tokio::spawn(async move {
                        if !delay.is_zero() {
                            tokio::time::sleep(delay).await;
                        }
                        let info = wire::decode_wire_message(&reply).and_then(|(p, d, _, _)| dht_info(&p, &d));
                        let _ = back.verif_inject(&stub_id, reply).await;
                        if let Some(h) = me.upgrade() {
                            h.push(Ev::Deliver { t: h.t(), from: stub_id, to: from2, dht: info });
                        }
                    });
                }
            }
        }
        Ok(())
    }

    fn note_send_attempt(&self, from: &str, to: &str, protocol: &str) {
        self.push(Ev::Attempt { t: self.t(), from: from.into(), to: to.into(), proto: protocol.into() });
    }
}

pub struct Node {
    pub tid: String,
    pub app_id: String,
    pub addr: SocketAddr,
    pub th: Arc<TransportHandle>,
    pub mgr: Arc<DhtNetworkManager>,
    pub key: Key,
}

/// Address for node #i: distinct /16 per node, spread over regions, so admission gates never interfere.
pub fn node_addr(i: usize) -> SocketAddr {
    let firsts = [11u8, 23, 45, 67, 89, 101, 130, 142, 155, 165, 178, 190, 201, 212];
    let a = firsts[i % firsts.len()];
    let b = 1 + (i / firsts.len()) as u8 * 3 + (i % 3) as u8;
    SocketAddr::new(std::net::IpAddr::V4(std::net::Ipv4Addr::new(a, b, (i % 200) as u8, 1 + (i % 250) as u8)), 9000 + i as u16)
}

pub async fn add_node(hub: &Arc<Hub>, tid_bytes: [u8; 32], addr: SocketAddr, app_id: Option<String>, request_timeout: Duration, replication: usize) -> Result<Node, String> {
    let tid = hex::encode(tid_bytes);
    let app = app_id.unwrap_or_else(|| tid.clone());
    let th = Arc::new(TransportHandle::verif_new_mem(app.clone(), tid.clone(), hub.clone(), request_timeout));
    hub.register(&tid, addr, Some(th.clone()), None);
    th.start_network_listeners().await.map_err(|e| e.to_string())?;
    let mut cfg = DhtNetworkConfig::default();
    cfg.local_peer_id = app.clone();
    cfg.request_timeout = request_timeout;
    cfg.replication_factor = replication;
    let mgr = Arc::new(DhtNetworkManager::new(th.clone(), None, cfg).await.map_err(|e| e.to_string())?);
    mgr.start().await.map_err(|e| e.to_string())?;
    let key = dht_key_of(&app);
    Ok(Node { tid, app_id: app, addr, th, mgr, key })
}

pub fn add_stub(hub: &Arc<Hub>, tid_bytes: [u8; 32], addr: SocketAddr, script: StubScript) -> String {
    let tid = hex::encode(tid_bytes);
    hub.register(&tid, addr, None, Some(script));
    tid
}

/// Let spawned tasks run (virtual time).
pub async fn settle(ms: u64) {
    tokio::time::sleep(Duration::from_millis(ms)).await;
}
