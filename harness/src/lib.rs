//! vcheck library: engine, in-memory network and the property checks (also used by the libFuzzer targets in /verif/fuzz).
pub mod engine;
pub mod memnet;
pub mod props;
pub mod fuzz;
